(* C03 — Encode then Decode is the identity on canonical values, a normal form otherwise. *)
From Coq Require Import List ZArith NArith Bool.
From Coq.Strings Require Import Byte.
From OgRek Require Import Base Value Reader Decoder Encoder Norm Insn EncProg PyVM PyVal PyVM2 EncoderFacts RoundTrip SimFacts LiftFacts ViaPython.
Import ListNotations.

(* STATUS.  C03_round_trip_partial is the property for every value in the fragment  norm c v = Some t
   (Model/Norm.v): None, bool, every int / uint width, *big.Int and big.Int, float32 / float64,
   string / named string / unicode / ByteString / Bytes / []byte, Tuple, []any and typed slices /
   arrays, Class, Call, Ref, pointers, nil - nested to any depth, at every protocol 0..5 (the
   protocol-0 text forms included: INT / LONG decimal, S + pyquote, V + raw-unicode-escape, F + %g),
   both StrictUnicode settings, both PyDict settings, any prior decoder state, any trailing bytes.
   t says what comes back: the value itself for canonical values, ByteString as string with
   StrictUnicode off, the documented normal form for the rest.  norm is None exactly for: maps,
   Dicts and structs (heap objects: decided on every run by the correspondence check and the
   Decode(Encode(v)) oracle), payloads of 2^32 bytes or more in the counted forms, and the inputs on
   which Encode returns one of its three documented errors.  The protocol-0 float case carries a
   computed side condition (Norm.fmtg_ok): the text Go's %g produced - an oracle dumped from the Go
   runtime - must read back as the same bits. *)

Theorem C03_round_trip_partial : forall c pd v t st rest,
  (0 <= e_proto c <= 5)%Z -> norm c v = Some t ->
  snd (run_w (encode c v) None) = EOk /\
  exists x st',
    decode (dcfg_of c pd) st (output (encode c v) ++ rest) = ((Ok x, st'), rest) /\
    erase x = Some t.
Proof. exact encode_decode. Qed.
Print Assumptions C03_round_trip_partial.

(* Maps, Dicts and structs (and everything else the documented type table covers): the round trip
   stated through the documented Python value.  For every Go value v with pyval_of c v = Some x
   (PyVal.v: the type table; C01), every protocol and both settings: Encode succeeds; its program
   loads on the CPython machine to an object graph q that unfolds to x (U); and Decode of the bytes
   (followed by anything) returns a Go value v' standing for q under the C06 relation R - for a map /
   Dict / struct: an object holding exactly the assignments made, in iteration order (Core.c_dicts) -
   or, with PyDict off, the documented error when a key cannot be a Go map key (e.g. a Tuple key).
   There is no stale-view case: Encode never emits APPEND. *)
Theorem C03_through_python_value : forall c pd v x rest,
  (0 <= e_proto c <= 5)%Z -> pyval_of c v = Some x ->
  exists ws q pstf,
    run_w (encode c v) None = (ws, EOk) /\
    qload (program c v) = Some (q, pstf) /\ U (q_heap pstf) x q /\
    ((exists v' st' b' after,
         decode (dcfg_of c pd) init_state (concat ws ++ rest) = ((Ok v', st'), after) /\
         R pd (e_strict c) b' (q_heap pstf) v' q /\ Core pd (e_strict c) b' st' pstf)
     \/ (pd = false /\ exists e st' after,
           decode (dcfg_of c pd) init_state (concat ws ++ rest) = ((Err e, st'), after))).
Proof. exact encode_decode_python. Qed.
Print Assumptions C03_through_python_value.

(* Encode never modifies its argument: the model is a pure function of the value (trivially);
   on the implementation the harness compares a deep dump before and after every Encode. *)

(* the documented limitations are the only errors Encode itself raises besides TypeError *)
Theorem C03_encode_outcomes_partial :
  forall c v fa, snd (run_w (encode c v) fa) <> EPanic.
Proof. exact encode_no_panic. Qed.
Print Assumptions C03_encode_outcomes_partial.

(* concrete round trips through both models, every protocol (computation, not a proof of the
   general statement) *)
Definition cfgp (p : Z) : econfig := Build_econfig p false (fun _ => false) (fun _ => []).
Definition dcfg : dconfig := Build_dconfig false false None.
Definition rt (p : Z) (v : rval) : res val :=
  fst (fst (decode dcfg init_state (output (encode (cfgp p) v)))).
Example C03_examples :
  forall p, In p [0; 1; 2; 3; 4; 5]%Z ->
    rt p (RList [RInt 1; RInt (-129); RInt 70000; RBool true; RNone; RStr SPlain [x61; x0a; x22]]) =
      Ok (VList 0%N [VInt 1; VInt (-129); VInt 70000; VBool true; VNone; VStr [x61; x0a; x22]]) /\
    rt p (RTuple [RStr SBytes [xff; x00]; RBig 18446744073709551616]) =
      Ok (VTuple [VBytes [xff; x00]; VBig (if (p <=? 2)%Z then (if (p <=? 1)%Z then 0%N else 0%N) else 0%N) 18446744073709551616]).
Proof.
  intros p H. cbn in H.
  repeat (destruct H as [H|H]; [subst p; vm_compute; split; reflexivity|]). contradiction.
Qed.

(* the fragment is not empty: nested containers, every integer width boundary, big ints, strings *)
Example C03_fragment_nonvacuous :
  forall p, In p [1; 2; 3; 4; 5]%Z ->
    norm (cfgp p) (RList [RInt 1; RInt (-129); RInt 70000; RUint 18446744073709551615; RBool true; RNone;
                          RStr SPlain [x61; x0a; x22]; RTuple [RBig (-5); RCall [x6d] [x6e] [RClass [x61] [x62]]];
                          RPtr false None (RRef (RTuple [RStr SByteString [xff]]))]) =
    Some (TList [TInt 1; TInt (-129); TInt 70000; TBig 18446744073709551615; TBool true; TNone;
                 TStr [x61; x0a; x22]; TTuple [TBig (-5); TCall [x6d] [x6e] [TClass [x61] [x62]]];
                 TRef (TTuple [TStr [xff]])]).
Proof.
  intros p H. cbn in H.
  repeat (destruct H as [H|H]; [subst p; vm_compute; reflexivity|]). contradiction.
Qed.
