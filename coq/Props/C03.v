(* C03 — Encode then Decode is the identity on canonical values, a normal form otherwise. *)
From Coq Require Import List ZArith NArith Bool.
From Coq.Strings Require Import Byte.
From OgRek Require Import Base Value Reader Decoder Encoder Norm NormMaps Insn EncProg PyVM PyVal PyVM2 EncoderFacts RoundTrip SimFacts LiftFacts ViaPython RoundTripMaps.
Import ListNotations.

(* STATUS.  C03_round_trip_partial is the property for every value in the fragment  norm c v = Some t
   (Model/Norm.v): None, bool, every int / uint width, *big.Int and big.Int, float32 / float64,
   string / named string / unicode / ByteString / Bytes / []byte, Tuple, []any and typed slices /
   arrays, Class, Call, Ref, pointers, nil - nested to any depth, at every protocol 0..5 (the
   protocol-0 text forms included: INT / LONG decimal, S + pyquote, V + raw-unicode-escape, F + %g),
   both StrictUnicode settings, both PyDict settings, any prior decoder state, any trailing bytes.
   t says what comes back: the value itself for canonical values, ByteString as string with
   StrictUnicode off, the documented normal form for the rest.  norm is None exactly for: maps,
   Dicts and structs (heap objects: C03_round_trip_maps below), payloads of 2^32 bytes or more in the counted forms, and the inputs on
   which Encode returns one of its three documented errors.  The protocol-0 float case carries a
   computed side condition (Norm.fmtg_ok): the text Go's %g produced - an oracle dumped from the Go
   runtime - must read back as the same bits. *)

Theorem C03_round_trip_partial : forall c pd v t st rest,
  (0 <= e_proto c <= 5)%Z -> norm c v = Some t ->
  snd (run_w (encode c v) None) = EOk /\
  exists x st',
    decode (dcfg_of c pd) st (output (encode c v) ++ rest) = ((Ok x, st'), rest) /\
    erase x = Some t.
Proof. exact encode_decode. Qed.
Print Assumptions C03_round_trip_partial.

(* Maps, Dicts and structs, as an equation between Go values.  NormMaps.norm2 c pd g v extends norm to
   values that hold builtin maps, Dicts and structs (encoded by value) anywhere inside: a map / Dict /
   struct comes back as the map (PyDict off) or Dict (PyDict on) whose entries are the result of
   assigning the normal forms of the pairs in iteration order - under Python equality for a Dict
   (an equal key replaces: int8(1), int64(1), 1.0 and True are one key), under Go interface equality
   for a builtin map.  norm2 is None where Decode returns the documented error (a Tuple / Call key in
   a builtin map, an unhashable key), for *big.Int keys of a builtin map (compared by pointer) and
   for references whose id holds a map.  For every v with norm2 c pd g v = Some cvl, every protocol
   0..5, both settings, every hook meeting hook_spec (g = TRef without a hook), any prior decoder
   state with a well-formed heap (heap_bound: true of every state a Decoder reaches - C03_heap_stays_
   well_formed) and any trailing bytes: Encode succeeds and Decode returns a value whose content read
   through the decoder's heap is cvl; earlier objects are untouched. *)
Theorem C03_round_trip_maps : forall c pd load g v cvl st rest,
  hook_spec load g ->
  (0 <= e_proto c <= 5)%Z -> norm2 c pd g v = Some cvl -> heap_bound st ->
  snd (run_w (encode c v) None) = EOk /\
  exists x st',
    decode (dcfg_h c pd load) st (output (encode c v) ++ rest) = ((Ok x, st'), rest) /\
    content (d_heap st') x cvl /\ gext (d_heap st) (d_heap st') /\ heap_bound st'.
Proof. exact encode_decode_maps. Qed.
Print Assumptions C03_round_trip_maps.

Theorem C03_heap_stays_well_formed : forall cfg st inp r st' rest,
  heap_bound st -> decode cfg st inp = ((r, st'), rest) -> heap_bound st'.
Proof. exact decode_heap_bound. Qed.
Print Assumptions C03_heap_stays_well_formed.

(* non-vacuity: a struct holding a list of maps with colliding keys, in both modes *)
Example C03_maps_example :
  let c := Build_econfig 2 false (fun _ => false) (fun _ => []) in
  let v := RStruct [SField [x41] true [] (RList [RMap [(RInt 1, RStr SPlain [x61]); (RUint 1, RStr SPlain [x62])];
                                                    RMap [(RStr SPlain [x6b], RMap [])]])] in
  norm2 c true TRef v =
    Some (CDict [(CLeaf (TStr [x41]),
                  CList [CDict [(CLeaf (TInt 1), CLeaf (TStr [x62]))];
                         CDict [(CLeaf (TStr [x6b]), CDict [])]])]) /\
  norm2 c false TRef v =
    Some (CMap [(CLeaf (TStr [x41]),
                 CList [CMap [(CLeaf (TInt 1), CLeaf (TStr [x62]))];
                        CMap [(CLeaf (TStr [x6b]), CMap [])]])]) /\
  heap_bound init_state.
Proof. split; [vm_compute; reflexivity|split; [vm_compute; reflexivity|exact heap_bound_init]]. Qed.

(* Maps, Dicts and structs (and everything else the documented type table covers): the round trip
   stated through the documented Python value.  For every Go value v with pyval_of c v = Some x
   (PyVal.v: the type table; C01), every protocol and both settings: Encode succeeds; its program
   loads on the CPython machine to an object graph q that unfolds to x (U); and Decode of the bytes
   (followed by anything) returns a Go value v' standing for q under the C06 relation R - for a map /
   Dict / struct: an object holding exactly the assignments made, in iteration order (Core.c_dicts) -
   or, with PyDict off, the documented error when a key cannot be a Go map key (e.g. a Tuple key).
   There is no stale-view case: Encode never emits APPEND. *)
Theorem C03_through_python_value : forall c pd v x rest,
  (0 <= e_proto c <= 5)%Z -> pyval_of c v = Some x ->
  exists ws q pstf,
    run_w (encode c v) None = (ws, EOk) /\
    qload (program c v) = Some (q, pstf) /\ U (q_heap pstf) x q /\
    ((exists v' st' b' after,
         decode (dcfg_of c pd) init_state (concat ws ++ rest) = ((Ok v', st'), after) /\
         R pd (e_strict c) b' (q_heap pstf) v' q /\ Core pd (e_strict c) b' st' pstf)
     \/ (pd = false /\ exists e st' after,
           decode (dcfg_of c pd) init_state (concat ws ++ rest) = ((Err e, st'), after))).
Proof. exact encode_decode_python. Qed.
Print Assumptions C03_through_python_value.

(* Encode never modifies its argument: the model is a pure function of the value (trivially);
   on the implementation the harness compares a deep dump before and after every Encode. *)

(* the documented limitations are the only errors Encode itself raises besides TypeError *)
Theorem C03_encode_outcomes_partial :
  forall c v fa, snd (run_w (encode c v) fa) <> EPanic.
Proof. exact encode_no_panic. Qed.
Print Assumptions C03_encode_outcomes_partial.

(* concrete round trips through both models, every protocol (computation, not a proof of the
   general statement) *)
Definition cfgp (p : Z) : econfig := Build_econfig p false (fun _ => false) (fun _ => []).
Definition dcfg : dconfig := Build_dconfig false false None.
Definition rt (p : Z) (v : rval) : res val :=
  fst (fst (decode dcfg init_state (output (encode (cfgp p) v)))).
Example C03_examples :
  forall p, In p [0; 1; 2; 3; 4; 5]%Z ->
    rt p (RList [RInt 1; RInt (-129); RInt 70000; RBool true; RNone; RStr SPlain [x61; x0a; x22]]) =
      Ok (VList 0%N [VInt 1; VInt (-129); VInt 70000; VBool true; VNone; VStr [x61; x0a; x22]]) /\
    rt p (RTuple [RStr SBytes [xff; x00]; RBig 18446744073709551616]) =
      Ok (VTuple [VBytes [xff; x00]; VBig (if (p <=? 2)%Z then (if (p <=? 1)%Z then 0%N else 0%N) else 0%N) 18446744073709551616]).
Proof.
  intros p H. cbn in H.
  repeat (destruct H as [H|H]; [subst p; vm_compute; split; reflexivity|]). contradiction.
Qed.

(* the fragment is not empty: nested containers, every integer width boundary, big ints, strings *)
Example C03_fragment_nonvacuous :
  forall p, In p [1; 2; 3; 4; 5]%Z ->
    norm (cfgp p) (RList [RInt 1; RInt (-129); RInt 70000; RUint 18446744073709551615; RBool true; RNone;
                          RStr SPlain [x61; x0a; x22]; RTuple [RBig (-5); RCall [x6d] [x6e] [RClass [x61] [x62]]];
                          RPtr false None (RRef (RTuple [RStr SByteString [xff]]))]) =
    Some (TList [TInt 1; TInt (-129); TInt 70000; TBig 18446744073709551615; TBool true; TNone;
                 TStr [x61; x0a; x22]; TTuple [TBig (-5); TCall [x6d] [x6e] [TClass [x61] [x62]]];
                 TRef (TTuple [TStr [xff]])]).
Proof.
  intros p H. cbn in H.
  repeat (destruct H as [H|H]; [subst p; vm_compute; reflexivity|]). contradiction.
Qed.
