(* C18 — Persistent-reference hooks are called as documented and invert each other. *)
From Coq Require Import List ZArith NArith Bool.
From Coq.Strings Require Import Byte.
From OgRek Require Import Base Value Reader Decoder Encoder TypingFacts HookFacts.
Import ListNotations.

(* ---- Decode side: d_log is the list of Refs handed to PersistentLoad, most recent first ------- *)

(* no opcode other than PERSID / BINPERSID ever calls PersistentLoad: on every path of every
   other handler the call log is unchanged *)
Theorem C18_only_persid_opcodes_call :
  forall cfg op key insn st, is_persid_op op = false ->
    leaves (fun o => d_log (st_of o) = d_log st) (handler cfg op key insn st).
Proof. exact other_opcodes_keep_log. Qed.
Print Assumptions C18_only_persid_opcodes_call.

(* PERSID: the id is the line read; BINPERSID: the id is the popped (non-marker) stack top;
   both go through handleRef ... *)
Theorem C18_persid : forall cfg key insn st,
  handler cfg OPersid key insn st = RdLine (fun pid => handle_ref cfg st (VStr pid)).
Proof. exact persid_handler. Qed.
Theorem C18_binpersid : forall cfg key insn st v t,
  d_stack st = v :: t -> is_mark v = false ->
  handler cfg OBinpersid key insn st = handle_ref cfg (set_stack st t) v.
Proof. exact binpersid_handler. Qed.

(* ... which calls the hook exactly once with Ref{id} (one log entry, call index = number of
   earlier calls): a non-nil result replaces the reference, nil keeps the Ref, an error aborts
   Decode with an error; without a hook the Ref is pushed and nothing is logged *)
Theorem C18_handle_ref : forall cfg st pid,
  handle_ref cfg st pid =
  match c_load cfg with
  | None => ok (push (VRef pid) st)
  | Some f =>
      let st1 := add_log st (VRef pid) in
      match f (Nlen (d_log st)) pid with
      | LErr => fail st1 EOther
      | LNil => ok (push (VRef pid) st1)
      | LObj o => ok (push o st1)
      end
  end.
Proof. exact handle_ref_spec. Qed.
Print Assumptions C18_handle_ref.

(* the Ref passed to the hook never contains the stack marker (C16's invariant covers d_log) *)

(* ---- Encode side: rval carries PersistentRef's answer for each pointer (RPtr to_struct ref v) - *)

(* consulted only for pointers to structs; a nil answer means regular encoding of the pointee *)
Theorem C18_not_consulted_or_nil : forall c x,
  (forall r, enc c (RPtr false r x) = enc c x) /\ (forall b, enc c (RPtr b None x) = enc c x).
Proof. intros c x. split; [intros r; apply enc_ptr_not_struct|intros b; apply enc_ptr_without_ref]. Qed.

(* a non-nil Ref is emitted as a persistent reference with that id: protocol >= 1: the id, then
   BINPERSID; protocol 0: P<id>\n for single-line string ids, otherwise the documented error *)
Theorem C18_ref_emitted : forall c pid x,
  enc c (RPtr true (Some pid) x) = enc_ref c pid (enc c pid) /\
  ((1 <= e_proto c)%Z -> enc_ref c pid (enc c pid) = wseq (enc c pid) (emit [x51])) /\
  (e_proto c = 0%Z -> forall s, pid = RStr SPlain s -> has_lf s = false ->
     enc_ref c pid (enc c pid) = emit (x50 :: s ++ [x0a])) /\
  (e_proto c = 0%Z -> (forall s, pid = RStr SPlain s -> has_lf s = true) ->
     enc_ref c pid (enc c pid) = WFail EP0Persid).
Proof.
  intros c pid x. split; [apply enc_ptr_with_ref|]. split; [apply enc_ref_binary|]. split.
  - intros H s -> L. apply enc_ref_p0_string; assumption.
  - intros H N. apply enc_ref_p0_other; assumption.
Qed.
Print Assumptions C18_ref_emitted.

(* NOT YET PROVED (partial): that Decode with the inverse PersistentLoad applied to Encode's output
   restores the object graph - it needs the round-trip theorem of C03.  Decided on every run by
   decoding the encoder output again and by comparing the hook call logs with CPython's. *)
