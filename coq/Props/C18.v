(* C18 — Persistent-reference hooks are called as documented and invert each other. *)
From Coq Require Import List ZArith NArith Bool.
From Coq.Strings Require Import Byte.
From OgRek Require Import Base Value Reader Decoder Encoder Norm NormMaps TypingFacts HookFacts ExecFacts RoundTrip RoundTripMaps.
Import ListNotations.

(* ---- Decode side: d_log is the list of Refs handed to PersistentLoad, most recent first ------- *)

(* no opcode other than PERSID / BINPERSID ever calls PersistentLoad: on every path of every
   other handler the call log is unchanged *)
Theorem C18_only_persid_opcodes_call :
  forall cfg op key insn st, is_persid_op op = false ->
    leaves (fun o => d_log (st_of o) = d_log st) (handler cfg op key insn st).
Proof. exact other_opcodes_keep_log. Qed.
Print Assumptions C18_only_persid_opcodes_call.

(* PERSID: the id is the line read; BINPERSID: the id is the popped (non-marker) stack top;
   both go through handleRef ... *)
Theorem C18_persid : forall cfg key insn st,
  handler cfg OPersid key insn st = RdLine (fun pid => handle_ref cfg st (VStr pid)).
Proof. exact persid_handler. Qed.
Theorem C18_binpersid : forall cfg key insn st v t,
  d_stack st = v :: t -> is_mark v = false ->
  handler cfg OBinpersid key insn st = handle_ref cfg (set_stack st t) v.
Proof. exact binpersid_handler. Qed.

(* ... which calls the hook exactly once with Ref{id} (one log entry, call index = number of
   earlier calls): a non-nil result replaces the reference, nil keeps the Ref, an error aborts
   Decode with an error; without a hook the Ref is pushed and nothing is logged *)
Theorem C18_handle_ref : forall cfg st pid,
  handle_ref cfg st pid =
  match c_load cfg with
  | None => ok (push (VRef pid) st)
  | Some f =>
      let st1 := add_log st (VRef pid) in
      match f (Nlen (d_log st)) pid with
      | LErr => fail st1 EOther
      | LNil => ok (push (VRef pid) st1)
      | LObj o => ok (push o st1)
      end
  end.
Proof. exact handle_ref_spec. Qed.
Print Assumptions C18_handle_ref.

(* an error from the hook aborts Decode with an error, wherever in the stream the reference opcode
   stands: whatever was executed before it (exec: any number of instructions from the start of
   this Decode call reaching state st1 with the id on top), Decode returns the error and has
   consumed the input up to and including the opcode; the failed call is in the log *)
Theorem C18_hook_error_aborts : forall cfg f st inp i st1 pid t rest,
  c_load cfg = Some f ->
  exec cfg 0 (start_state st) inp i st1 (x51 :: rest) ->
  d_stack st1 = pid :: t -> is_mark pid = false ->
  f (Nlen (d_log st1)) pid = LErr ->
  decode cfg st inp = ((Err EOther, add_log (set_stack st1 t) (VRef pid)), rest).
Proof.
  intros cfg f st inp i st1 pid t rest Hl E Hs Hm Hf.
  eapply exec_decode_err; [exact E|reflexivity|reflexivity|].
  cbn [handler]. rewrite Hs, Hm. unfold handle_ref. rewrite Hl. cbn [d_log set_stack]. rewrite Hf. reflexivity.
Qed.
Print Assumptions C18_hook_error_aborts.

(* the Ref passed to the hook never contains the stack marker (C16's invariant covers d_log) *)

(* ---- Encode side: rval carries PersistentRef's answer for each pointer (RPtr to_struct ref v) - *)

(* consulted only for pointers to structs; a nil answer means regular encoding of the pointee *)
Theorem C18_not_consulted_or_nil : forall c x,
  (forall r, enc c (RPtr false r x) = enc c x) /\ (forall b, enc c (RPtr b None x) = enc c x).
Proof. intros c x. split; [intros r; apply enc_ptr_not_struct|intros b; apply enc_ptr_without_ref]. Qed.

(* a non-nil Ref is emitted as a persistent reference with that id: protocol >= 1: the id, then
   BINPERSID; protocol 0: P<id>\n for single-line string ids, otherwise the documented error *)
Theorem C18_ref_emitted : forall c pid x,
  enc c (RPtr true (Some pid) x) = enc_ref c pid (enc c pid) /\
  ((1 <= e_proto c)%Z -> enc_ref c pid (enc c pid) = wseq (enc c pid) (emit [x51])) /\
  (e_proto c = 0%Z -> forall s, pid = RStr SPlain s -> has_lf s = false ->
     enc_ref c pid (enc c pid) = emit (x50 :: s ++ [x0a])) /\
  (e_proto c = 0%Z -> (forall s, pid = RStr SPlain s -> has_lf s = true) ->
     enc_ref c pid (enc c pid) = WFail EP0Persid).
Proof.
  intros c pid x. split; [apply enc_ptr_with_ref|]. split; [apply enc_ref_binary|]. split.
  - intros H s -> L. apply enc_ref_p0_string; assumption.
  - intros H N. apply enc_ref_p0_other; assumption.
Qed.
Print Assumptions C18_ref_emitted.

(* ---- Encode, then Decode with the inverse hook ------------------------------------------------- *)

(* The object graph as the application sees it.  norm c v is the content of v with every pointer
   for which PersistentRef answered pid (and every explicit Ref{pid}) standing as TRef (content of
   pid); hmap g replaces each by g (...), innermost first - g describes PersistentLoad:
   hook_spec (Some f) g says that f, given an id with content t, either returns nil and g t is the
   Ref itself, or returns an object whose content is g t.  For hooks that invert each other g t is
   the application object PersistentRef mapped to the id t, so hmap g (norm c v) is the original
   graph, and the theorem says Decode returns exactly that, at every protocol 0..5 (at protocol 0
   norm is defined only for single-line string ids, as the encoder is), for every value of the
   fragment, after any earlier use of the decoder and whatever follows the pickle. *)
Theorem C18_inverse_hooks_partial : forall c pd load g v t st rest,
  hook_spec load g ->
  (0 <= e_proto c <= 5)%Z -> norm c v = Some t ->
  snd (run_w (encode c v) None) = EOk /\
  exists x st',
    decode (dcfg_h c pd load) st (output (encode c v) ++ rest) = ((Ok x, st'), rest) /\
    erase x = Some (hmap g t).
Proof. exact encode_decode_hooked. Qed.
Print Assumptions C18_inverse_hooks_partial.

(* the instance every run compares with the implementation: inv_load (Model/Norm.v) is the hook
   installed in the Go harness and in the extracted model for the inverse-hooks runs *)
Theorem C18_registry_hook : forall c pd v t st rest,
  (0 <= e_proto c <= 5)%Z -> norm c v = Some t ->
  snd (run_w (encode c v) None) = EOk /\
  exists x st',
    decode (dcfg_h c pd (Some inv_load)) st (output (encode c v) ++ rest) = ((Ok x, st'), rest) /\
    erase x = Some (hmap inv_g t).
Proof. intros c pd v t st rest. exact (encode_decode_hooked c pd (Some inv_load) inv_g v t st rest inv_hook_ok). Qed.
Print Assumptions C18_registry_hook.

(* the hypotheses are satisfiable: application objects 0,1,2.. registered under the ids "a", ("b",7);
   PersistentLoad looks the id up and keeps unknown ids as Refs *)
Definition ex_obj (t : tval) : option N :=
  match t with
  | TStr [x61] => Some 0%N
  | TTuple [TStr [x62]; TInt 7] => Some 1%N
  | _ => None
  end.
Definition ex_load (idx : N) (p : val) : load_result :=
  match erase p with
  | Some t => match ex_obj t with Some n => LObj (VUser n) | None => LNil end
  | None => LNil
  end.
Definition ex_g (t : tval) : tval := match ex_obj t with Some n => TUser n | None => TRef t end.
Example C18_hooks_exist : hook_spec (Some ex_load) ex_g.
Proof.
  intros idx p t E. unfold ex_load, ex_g. rewrite E. destruct (ex_obj t) as [n|].
  - right. exists (VUser n). split; reflexivity.
  - left. split; reflexivity.
Qed.
(* a list holding two registered pointers (one id nested in a tuple), a plain value and a pointer
   whose id the loader does not know: the decoded graph has the two objects back in place *)
Example C18_graph :
  let c := Build_econfig 2 false (fun _ => false) (fun _ => []) in
  let v := RList [RPtr true (Some (RStr SPlain [x61])) (RStruct []);
                  RInt 5;
                  RTuple [RPtr true (Some (RTuple [RStr SPlain [x62]; RInt 7])) (RStruct [])];
                  RPtr true (Some (RStr SPlain [x7a])) (RStruct [])] in
  option_map (hmap ex_g) (norm c v) =
    Some (TList [TUser 0; TInt 5; TTuple [TUser 1]; TRef (TStr [x7a])]) /\
  match fst (fst (decode (dcfg_h c false (Some ex_load)) init_state (output (encode c v)))) with
  | Ok x => erase x = Some (TList [TUser 0; TInt 5; TTuple [TUser 1]; TRef (TStr [x7a])])
  | _ => False
  end.
Proof. vm_compute. split; reflexivity. Qed.

(* the same graph shape at protocol 0, where only the string id has a form *)
Example C18_graph_p0 :
  let c := Build_econfig 0 false (fun _ => false) (fun _ => []) in
  let v := RList [RPtr true (Some (RStr SPlain [x61])) (RStruct []); RInt 5;
                  RPtr true (Some (RStr SPlain [x7a])) (RStruct [])] in
  option_map (hmap ex_g) (norm c v) = Some (TList [TUser 0; TInt 5; TRef (TStr [x7a])]) /\
  match fst (fst (decode (dcfg_h c false (Some ex_load)) init_state (output (encode c v)))) with
  | Ok x => erase x = Some (TList [TUser 0; TInt 5; TRef (TStr [x7a])])
  | _ => False
  end.
Proof. vm_compute. split; reflexivity. Qed.

(* the same for graphs that hold maps, Dicts and structs encoded by value: the content, read through
   the decoder's heap, is NormMaps.norm2 c pd g v (references replaced by what the hook makes of
   them, maps / Dicts as the result of the assignments) *)
Theorem C18_inverse_hooks_with_maps : forall c pd load g v cvl st rest,
  hook_spec load g ->
  (0 <= e_proto c <= 5)%Z -> norm2 c pd g v = Some cvl -> heap_bound st ->
  snd (run_w (encode c v) None) = EOk /\
  exists x st',
    decode (dcfg_h c pd load) st (output (encode c v) ++ rest) = ((Ok x, st'), rest) /\
    content (d_heap st') x cvl /\ gext (d_heap st) (d_heap st') /\ heap_bound st'.
Proof. exact encode_decode_maps. Qed.
Print Assumptions C18_inverse_hooks_with_maps.

Example C18_graph_with_map :
  let c := Build_econfig 2 false (fun _ => false) (fun _ => []) in
  let v := RMap [(RStr SPlain [x6b], RPtr true (Some (RStr SPlain [x61])) (RStruct []));
                 (RInt 2, RList [RPtr true (Some (RStr SPlain [x7a])) (RStruct [])])] in
  norm2 c true ex_g v = Some (CDict [(CLeaf (TStr [x6b]), CLeaf (TUser 0)); (CLeaf (TInt 2), CLeaf (TList [TRef (TStr [x7a])]))]).
Proof. vm_compute. reflexivity. Qed.

(* Outside the theorems: references whose id itself holds a map, *big.Int keys of a builtin map.
   Decided on every run by decoding the encoder output again and by comparing the hook call logs
   with CPython's. *)
