(* C16 — Results contain only documented types, consistent with the decoder mode. *)
From Coq Require Import List ZArith NArith Bool.
From Coq.Strings Require Import Byte.
From OgRek Require Import Base Value Reader Decoder TypingFacts.
Import ListNotations.

(* wt cfg v : v is one of the documented result types for the mode cfg - None, bool, int64 (in
   range), *big.Int, float64, string, ByteString (only with StrictUnicode), Bytes, []byte, []any,
   Tuple, builtin map (only with PyDict off) / Dict (only with PyDict on), Class, Call, Ref, an
   object returned by PersistentLoad - recursively; never the stack marker, never an unsigned or
   complex number.  state_ok: every stack cell is the marker or well typed; memo, heap objects and
   every Ref handed to PersistentLoad are well typed (so the marker never reaches any of them).
   load_ok: what the user's PersistentLoad returns is itself a documented value. *)

(* For every byte string, every configuration and every well-typed decoder state: a successful
   Decode returns a well-typed value and leaves a well-typed state behind. *)
Theorem C16_result_typed :
  forall cfg, load_ok cfg ->
  forall st inp r st' rest,
    state_ok cfg st -> decode cfg st inp = ((r, st'), rest) ->
    state_ok cfg st' /\ (forall v, r = Ok v -> wt cfg v = true).
Proof. exact decode_typed. Qed.
Print Assumptions C16_result_typed.

(* ... hence for every stream of Decode calls on a fresh Decoder *)
Theorem C16_stream_typed :
  forall cfg, load_ok cfg ->
  forall inp,
    Forall (fun rs => (forall v, fst rs = Ok v -> wt cfg v = true) /\ state_ok cfg (snd rs))
           (decode_stream cfg inp).
Proof.
  intros cfg L inp. unfold decode_stream.
  apply (decode_all_typed cfg L). apply state_ok_init.
Qed.
Print Assumptions C16_stream_typed.

(* the marker, ByteString without StrictUnicode, Dict without PyDict, map with PyDict are excluded *)
Example C16_what_wt_excludes :
  let c00 := Build_dconfig false false None in let c11 := Build_dconfig true true None in
  wt c00 VMark = false /\ wt c11 (VTuple [VInt 1; VMark]) = false /\
  wt c00 (VBStr []) = false /\ wt c11 (VBStr []) = true /\
  wt c00 (VDict 0%N) = false /\ wt c11 (VMap 0%N) = false /\ wt c00 (VMap 0%N) = true /\
  wt c00 (VRef (VList 0%N [VMark])) = false /\ wt c00 (VUser 0%N) = false.
Proof. vm_compute. repeat split. Qed.

(* non-vacuity: the premises hold for the fresh decoder and a concrete successful decode *)
Example C16_nonvacuous :
  let cfg := Build_dconfig true true None in
  load_ok cfg /\ state_ok cfg init_state /\
  exists v st', decode cfg init_state [x28; x4b; x01; x55; x01; x61; x64; x2e] = ((Ok v, st'), []).
Proof.
  split; [intros f E; discriminate|]. split; [apply state_ok_init|].
  eexists. eexists. vm_compute. reflexivity.
Qed.
