(* C16 — Results contain only documented types, consistent with the decoder mode. *)
From Coq Require Import List ZArith NArith Bool.
From OgRek Require Import Base Value Reader Decoder DecoderFacts.
Import ListNotations.
(* placeholder until the typing invariant is proved: the only fact used here is C04's *)
Theorem C16_partial_no_panic :
  forall cfg st inp,
    fst (fst (decode cfg st inp)) <> Panic /\ fst (fst (decode cfg st inp)) <> OutOfFuel.
Proof. exact decode_safe. Qed.
