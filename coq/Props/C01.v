(* C01 — placeholder: the CPython-side specification machine is not yet modelled in Coq.  The
   property is decided on every run against CPython itself (harness/py/pyref.py) and the decoder /
   encoder models; see DESIGN.md. *)
From Coq Require Import List ZArith NArith Bool.
From OgRek Require Import Base Value Reader Decoder DecoderFacts Encoder EncoderFacts.
Theorem C01_partial_totality :
  (forall cfg st inp, fst (fst (decode cfg st inp)) <> Panic /\ fst (fst (decode cfg st inp)) <> OutOfFuel)
  /\ (forall c v fa, snd (run_w (encode c v) fa) <> EPanic).
Proof. split; [exact decode_safe|exact encode_no_panic]. Qed.
