(* C01 — Encoder output means the documented Python value under CPython's unpickler. *)
From Coq Require Import List ZArith NArith Bool.
From Coq.Strings Require Import Byte.
From OgRek Require Import Base Value Encoder Norm Insn EncProg PyVM PyVal EncoderFacts ProgFacts PyFacts.
Import ListNotations.

(* STATUS.  Two specifications appear in the statement, both compared with CPython 3.11 itself on
   every run (harness/py/props_py.py):
     PyVM.pyload   - CPython's unpickler on instruction lists without memo opcodes (the encoder emits
                     none), classes and persistent ids symbolic;
     PyVal.pyval_of - the Python value the documented type table assigns to a Go value.
   C01_encode_loads_partial: for every Go value in the domain of pyval_of, every protocol 0..5 and
   both StrictUnicode settings, Encode succeeds, its bytes are the assembly of one instruction
   program (one pickle, see C12), and the CPython machine loads that program without error to
   exactly pyval_of c v - numbers, text, byte payloads, key/value association (a dict is the
   sequence of assignments made, in iteration order; PyVM.pd_merge gives the entries Python keeps
   under its key equality) and nesting.
   The domain of pyval_of (hence `_partial`) leaves out: payloads of 2^31 (Python-2 str) / 2^32 bytes
   or more in the counted forms; a protocol-0 float whose %g text (oracle) would not mean the same
   bits; and what og-rek does not deliver: text that is not valid UTF-8 written with a unicode
   opcode, a non-ASCII persistent id at protocol 0 (the two recorded findings).  Every protocol-0
   text form is inside (S + pyquote, V + raw-unicode-escape, decimal INT / LONG, F + %g).  Outside the domain the property is decided on every run by loading the
   implementation's bytes with CPython and comparing with the documented value. *)
Theorem C01_encode_loads_partial : forall c v x,
  (0 <= e_proto c <= 5)%Z -> pyval_of c v = Some x ->
  exists ws, run_w (encode c v) None = (ws, EOk) /\
             concat ws = asm_all (program c v) /\
             pyload (program c v) = Some x.
Proof. exact encode_loads. Qed.
Print Assumptions C01_encode_loads_partial.

Theorem C01_partial_totality : forall c v fa, snd (run_w (encode c v) fa) <> EPanic.
Proof. exact encode_no_panic. Qed.
Print Assumptions C01_partial_totality.

(* the domain is not empty: a nested value with a map whose keys collide under Python equality *)
Definition ex_c (p : Z) : econfig := Build_econfig p false (fun _ => false) (fun _ => nil).
Example C01_nonvacuous :
  forall p, In p [1; 2; 3; 4; 5]%Z ->
    pyval_of (ex_c p)
      (RList [RInt (-129); RUint 18446744073709551615; RStr SBytes [xff; x00];
              RMap [(RInt 1, RInt 7); (RFloat 4607182418800017408, RBool true)];
              RCall [x6d] [x6e] [RTuple [RNone; RByteSeq [x01]]]]) =
    Some (PList [PInt (-129); PInt 18446744073709551615; PBytes [xff; x00];
                 PDict [(PInt 1, PInt 7); (PFloat 4607182418800017408, PBool true)];
                 PCall (PGlobal [x6d] [x6e]) [PTuple [PNone; PBArr [x01]]]]).
Proof.
  intros p H. cbn in H.
  repeat (destruct H as [H|H]; [subst p; vm_compute; reflexivity|]). contradiction.
Qed.
(* ... and the dict CPython ends up with holds one entry: 1 and 1.0 are the same key *)
Example C01_dict_merge :
  pd_merge [(PInt 1, PInt 7); (PFloat 4607182418800017408, PBool true)] = [(PInt 1, PBool true)].
Proof. vm_compute. reflexivity. Qed.
