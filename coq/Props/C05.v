(* C05 — every decoded value re-encodes at every protocol and decodes back to itself. *)
From Coq Require Import List ZArith NArith Bool.
From Coq.Strings Require Import Byte.
From OgRek Require Import Base Value Reader Decoder DecoderFacts Encoder EncoderFacts Norm NormMaps TypingFacts RoundTrip RoundTripMaps.

(* STATUS.  C05_redecode_partial is the property for every result without heap objects (maps,
   Dicts) and PersistentLoad objects:  whatever bytes inp Decode succeeded on - from any decoder
   state that satisfies the C16 typing invariant, under any configuration - the result x, seen by
   the encoder as reify x, encodes without error at protocol c and every decoder with the same
   StrictUnicode setting reads it back with the same content (erase: content without slice / big.Int
   identities), leaving following bytes untouched.  fits_proto c t lists, per leaf, what protocol c
   must offer for the theorem to apply; what it excludes is exactly (a) the three documented
   limitations, (b) payloads of 2^32 bytes or more in the counted forms, (c) a protocol-0 float whose
   %g text (oracle) would not read back as the same bits.
   Outside the fragment the property is decided on every run by the decode -> encode -> decode
   chain on the implementation, compared with both models. *)
Theorem C05_redecode_partial : forall cfg c st0 inp x st1 rest0 t st rest,
  state_ok cfg st0 -> load_ok cfg ->
  decode cfg st0 inp = ((Ok x, st1), rest0) ->
  c_strict cfg = e_strict c -> (0 <= e_proto c <= 5)%Z ->
  erase x = Some t -> fits_proto c t = true ->
  exists r, reify x = Some r /\
    snd (run_w (encode c r) None) = EOk /\
    exists x' st', decode (dcfg_of c (c_pydict cfg)) st (output (encode c r) ++ rest) = ((Ok x', st'), rest) /\
                   erase x' = erase x.
Proof. exact redecode. Qed.
Print Assumptions C05_redecode_partial.

(* Results that hold maps / Dicts: what is proved is the second half of the chain.  Whatever value r
   the encoder is handed - in particular the reflection of a decoded result, its maps iterated in
   whatever order the Go runtime chooses - if it has a normal form (NormMaps.norm2), Encode succeeds
   and Decode returns that normal form, from any decoder state (C03_round_trip_maps).  Not proved:
   that the normal form of the reflection of a decoded result x is the content of x up to the order
   of map entries (it needs: stored keys are pairwise unequal, so re-assigning them in any order
   reproduces the same entries) - decided by the run: decode -> encode at 6 protocols -> decode on
   the implementation, dumps with sorted entries compared. *)
Theorem C05_reencode_with_maps : forall c pd v cvl st rest,
  (0 <= e_proto c <= 5)%Z -> norm2 c pd TRef v = Some cvl -> heap_bound st ->
  snd (run_w (encode c v) None) = EOk /\
  exists x st',
    decode (dcfg_of c pd) st (output (encode c v) ++ rest) = ((Ok x, st'), rest) /\
    content (d_heap st') x cvl.
Proof.
  intros c pd v cvl st rest Hp Hn Hb.
  destruct (encode_decode_maps c pd None TRef v cvl st rest (fun _ => eq_refl) Hp Hn Hb) as [A [x [st' [D [C _]]]]].
  split; [exact A|]. exists x, st'. split; [exact D|exact C].
Qed.
Print Assumptions C05_reencode_with_maps.

Theorem C05_partial_totality :
  (forall cfg st inp, fst (fst (decode cfg st inp)) <> Panic /\ fst (fst (decode cfg st inp)) <> OutOfFuel)
  /\ (forall c v fa, snd (run_w (encode c v) fa) <> EPanic).
Proof. split; [exact decode_safe|exact encode_no_panic]. Qed.
Print Assumptions C05_partial_totality.

(* hypotheses are satisfiable: a hand-assembled protocol-2 pickle of ([1, 2L, u'a'], (None, True)) *)
Definition ex_inp : bytes :=
  (x80 :: x02 :: x5d :: x28 :: x4b :: x01 :: x8a :: x01 :: x02 :: x58 :: x01 :: x00 :: x00 :: x00 :: x61 ::
   x65 :: x4e :: x88 :: x86 :: x86 :: x2e :: nil).
Definition ex_cfg := Build_dconfig false false None.
Definition ex_c := Build_econfig 4 false (fun _ => false) (fun _ => nil).
Example C05_nonvacuous :
  match decode ex_cfg init_state ex_inp with
  | ((Ok x, _), nil) => match erase x with Some t => fits_proto ex_c t | None => false end
  | _ => false
  end = true.
Proof. vm_compute. reflexivity. Qed.
