(* C05 — every decoded value re-encodes at every protocol and decodes back to itself. *)
From Coq Require Import List ZArith NArith Bool.
From Coq.Strings Require Import Byte.
From Coq Require Import Permutation.
From OgRek Require Import Base Value Reader Decoder DecoderFacts Encoder EncoderFacts Norm NormMaps TypingFacts RoundTrip RoundTripMaps KeyFacts ReflectFacts.

(* STATUS.  C05_redecode_partial is the property for every result without heap objects (maps,
   Dicts) and PersistentLoad objects:  whatever bytes inp Decode succeeded on - from any decoder
   state that satisfies the C16 typing invariant, under any configuration - the result x, seen by
   the encoder as reify x, encodes without error at protocol c and every decoder with the same
   StrictUnicode setting reads it back with the same content (erase: content without slice / big.Int
   identities), leaving following bytes untouched.  fits_proto c t lists, per leaf, what protocol c
   must offer for the theorem to apply; what it excludes is exactly (a) the three documented
   limitations, (b) payloads of 2^32 bytes or more in the counted forms, (c) a protocol-0 float whose
   %g text (oracle) would not read back as the same bits.
   Outside the fragment the property is decided on every run by the decode -> encode -> decode
   chain on the implementation, compared with both models. *)
Theorem C05_redecode_partial : forall cfg c st0 inp x st1 rest0 t st rest,
  state_ok cfg st0 -> load_ok cfg ->
  decode cfg st0 inp = ((Ok x, st1), rest0) ->
  c_strict cfg = e_strict c -> (0 <= e_proto c <= 5)%Z ->
  erase x = Some t -> fits_proto c t = true ->
  exists r, reify x = Some r /\
    snd (run_w (encode c r) None) = EOk /\
    exists x' st', decode (dcfg_of c (c_pydict cfg)) st (output (encode c r) ++ rest) = ((Ok x', st'), rest) /\
                   erase x' = erase x.
Proof. exact redecode. Qed.
Print Assumptions C05_redecode_partial.

(* Results that hold maps / Dicts, second half of the chain.  Whatever value r the encoder is handed -
   in particular the reflection of a decoded result, its maps iterated in whatever order the Go
   runtime chooses - if it has a normal form (NormMaps.norm2), Encode succeeds and Decode returns
   that normal form, from any decoder state (C03_round_trip_maps). *)
Theorem C05_reencode_with_maps : forall c pd v cvl st rest,
  (0 <= e_proto c <= 5)%Z -> norm2 c pd TRef v = Some cvl -> heap_bound st ->
  snd (run_w (encode c v) None) = EOk /\
  exists x st',
    decode (dcfg_of c pd) st (output (encode c v) ++ rest) = ((Ok x, st'), rest) /\
    content (d_heap st') x cvl.
Proof.
  intros c pd v cvl st rest Hp Hn Hb.
  destruct (encode_decode_maps c pd None TRef v cvl st rest (fun _ => eq_refl) Hp Hn Hb) as [A [x [st' [D [C _]]]]].
  split; [exact A|]. exists x, st'. split; [exact D|exact C].
Qed.
Print Assumptions C05_reencode_with_maps.

(* Results that hold maps / Dicts, the whole chain.  x is what Decode returned on ANY input, from
   any decoder state satisfying the typing invariant (C16; it now includes: the keys every heap
   object holds are pairwise unequal - KeyFacts / TypingFacts.obj_ok).  r is ANY reflection of x
   (ReflectFacts.reflects): lists, tuples and calls element by element, every builtin map and Dict
   with its entries in an arbitrary order - the order Go's map iteration happens to pick.  If
   protocol c can carry r at all (norm2 defined: none of the three documented limitations, counted
   payloads below 2^32, no *big.Int key in a builtin map), then Encode succeeds, Decode of the
   output - by any decoder with the same two settings, from any state, followed by any bytes -
   succeeds and leaves exactly the following bytes, and ONE content cvl describes both results:
   the new value has it exactly (content), the first result has it up to the order of map entries
   (contentp), which no Go program can observe.  Type and content are therefore identical. *)
Theorem C05_redecode_with_maps : forall cfg c st0 inp x st1 rest0 r cvl st rest,
  state_ok cfg st0 -> load_ok cfg ->
  decode cfg st0 inp = ((Ok x, st1), rest0) ->
  c_strict cfg = e_strict c -> (0 <= e_proto c <= 5)%Z ->
  reflects (d_heap st1) x r ->
  norm2 c (c_pydict cfg) TRef r = Some cvl ->
  heap_bound st ->
  snd (run_w (encode c r) None) = EOk /\
  exists x' st',
    decode (dcfg_of c (c_pydict cfg)) st (output (encode c r) ++ rest) = ((Ok x', st'), rest) /\
    content (d_heap st') x' cvl /\
    contentp (d_heap st1) x cvl.
Proof.
  intros cfg c st0 inp x st1 rest0 r cvl st rest H0 LOK D Hs Hp R Hn Hb.
  destruct (decode_typed cfg LOK st0 inp (Ok x) st1 rest0 H0 D) as [H1 Hr].
  destruct (C05_reencode_with_maps c (c_pydict cfg) r cvl st rest Hp Hn Hb) as [A [x' [st' [D' C']]]].
  split; [exact A|]. exists x', st'. split; [exact D'|]. split; [exact C'|].
  eapply (reflect_norm2 cfg c Hs (d_heap st1) (so_heap cfg st1 H1)); [exact R|apply Hr; reflexivity|exact Hn].
Qed.
Print Assumptions C05_redecode_with_maps.

(* the same with the reflection COMPUTED (NormMaps.reflect: stored or reversed entry order, nesting depth
   bounded by fuel - cyclic values have no finite pickle).  This instance is what the run executes:
   the extracted reflect and norm2 predict the implementation's second Decode (model command reenc2). *)
Theorem C05_redecode_with_maps_computed : forall cfg c st0 inp x st1 rest0 fuel ro r cvl st rest,
  state_ok cfg st0 -> load_ok cfg ->
  decode cfg st0 inp = ((Ok x, st1), rest0) ->
  c_strict cfg = e_strict c -> (0 <= e_proto c <= 5)%Z ->
  reflect fuel ro (d_heap st1) x = Some r ->
  norm2 c (c_pydict cfg) TRef r = Some cvl ->
  heap_bound st ->
  snd (run_w (encode c r) None) = EOk /\
  exists x' st',
    decode (dcfg_of c (c_pydict cfg)) st (output (encode c r) ++ rest) = ((Ok x', st'), rest) /\
    content (d_heap st') x' cvl /\
    contentp (d_heap st1) x cvl.
Proof.
  intros cfg c st0 inp x st1 rest0 fuel ro r cvl st rest H0 LOK D Hs Hp R Hn Hb.
  eapply C05_redecode_with_maps; try eassumption. eapply reflect_sound. exact R.
Qed.
Print Assumptions C05_redecode_with_maps_computed.

(* the heap invariant the theorem rests on, for every reachable decoder state: no object ever holds
   two equal keys (Go == in a builtin map; Python == in a Dict, whose keys are all hashable) *)
Theorem C05_heap_keys_distinct : forall cfg st inp r st' rest id o,
  load_ok cfg -> state_ok cfg st -> decode cfg st inp = ((r, st'), rest) ->
  heap_get (d_heap st') id = Some o -> obj_keys o.
Proof.
  intros cfg st inp r st' rest id o LOK H D G.
  destruct (decode_typed cfg LOK st inp r st' rest H D) as [H1 _].
  exact (proj2 (heap_get_ok cfg (d_heap st') id o (so_heap cfg st' H1) G)).
Qed.
Print Assumptions C05_heap_keys_distinct.

(* hypotheses are satisfiable: {1: 2, 3: [4]} decoded, reflected with the entries in the other order *)
Definition ex2_inp : bytes :=
  (x7d :: x4b :: x01 :: x4b :: x02 :: x73 :: x4b :: x03 :: x5d :: x4b :: x04 :: x61 :: x73 :: x2e :: nil).
Definition ex2_r : rval := RMap ((RInt 3, RList (RInt 4 :: nil)) :: (RInt 1, RInt 2) :: nil).
Example C05_maps_nonvacuous :
  exists x st1, decode (Build_dconfig false false None) init_state ex2_inp = ((Ok x, st1), nil) /\
    reflects (d_heap st1) x ex2_r /\
    exists cvl, norm2 (Build_econfig 2 false (fun _ => false) (fun _ => nil)) false TRef ex2_r = Some cvl.
Proof.
  eexists. eexists. split; [vm_compute; reflexivity|]. split.
  - apply (reflect_sound 5 true). vm_compute. reflexivity.
  - eexists. vm_compute. reflexivity.
Qed.

Theorem C05_partial_totality :
  (forall cfg st inp, fst (fst (decode cfg st inp)) <> Panic /\ fst (fst (decode cfg st inp)) <> OutOfFuel)
  /\ (forall c v fa, snd (run_w (encode c v) fa) <> EPanic).
Proof. split; [exact decode_safe|exact encode_no_panic]. Qed.
Print Assumptions C05_partial_totality.

(* hypotheses are satisfiable: a hand-assembled protocol-2 pickle of ([1, 2L, u'a'], (None, True)) *)
Definition ex_inp : bytes :=
  (x80 :: x02 :: x5d :: x28 :: x4b :: x01 :: x8a :: x01 :: x02 :: x58 :: x01 :: x00 :: x00 :: x00 :: x61 ::
   x65 :: x4e :: x88 :: x86 :: x86 :: x2e :: nil).
Definition ex_cfg := Build_dconfig false false None.
Definition ex_c := Build_econfig 4 false (fun _ => false) (fun _ => nil).
Example C05_nonvacuous :
  match decode ex_cfg init_state ex_inp with
  | ((Ok x, _), nil) => match erase x with Some t => fits_proto ex_c t | None => false end
  | _ => false
  end = true.
Proof. vm_compute. reflexivity. Qed.
