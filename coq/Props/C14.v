(* C14 — Decoding does not depend on how the Reader delivers the bytes. *)
From Coq Require Import List ZArith NArith Bool Lia.
From OgRek Require Import Base Value Reader Bufio Decoder DecodeL1 DecoderFacts BufioFacts.
Import ListNotations.

(* The setting.  Model/Bufio.v is a model of what stands between og-rek's handlers and the caller's
   io.Reader: bufio.Reader with a buffer of bsz bytes (fill, ReadByte, Read, ReadSlice), io.ReadFull,
   io.CopyN into a bytes.Buffer (every request size left to an arbitrary function ask_copy), the
   ReadByte loop of loadBinUnicode, and og-rek's own readLine loop over bufio.ErrBufferFull.  The
   source (b_src) is ANY list of Read results - zero-length results without error included - the last
   one delivered with or without io.EOF; b_buf is whatever is already buffered.  absl b is the
   concatenation: the bytes still to come.  A zero-length result is answered by every consumer in this
   stack by reading again (bufio.fill, io.ReadAtLeast, bytes.Buffer.ReadFrom), which the model folds
   into the Read that follows (Bufio.skip_empty); bufio.fill's limit of 100 consecutive empty results
   (io.ErrNoProgress) is not modelled, hence the hypothesis no_long_runs.

   C14_chunking: for every buffer size >= 1, every request-size policy, every configuration, decoder
   state and source, the whole sequence of successive Decode results (values and errors, call after
   call) on the bufio machine equals that of the flat model on absl b - hence two sources with the
   same concatenation give the same results (C14_same_bytes_same_results): one byte at a time,
   arbitrary chunk boundaries, data together with io.EOF, lines longer than the buffer.
   Not modelled (stated, not proved): 100 or more zero-length results in a row (io.ErrNoProgress); a
   Reader that returns data after io.EOF; errors other than io.EOF. *)
Theorem C14_chunking :
  forall bsz ask_full ask_copy, (1 <= bsz)%nat -> ask_ok ask_full -> ask_ok ask_copy ->
  forall fuel cfg st b, wf b -> no_long_runs (b_src b) ->
    decode_all1 bsz ask_full ask_copy fuel cfg st b = decode_all fuel cfg st (absl b).
Proof. intros. apply decode_all1_refines; assumption. Qed.
Print Assumptions C14_chunking.

Theorem C14_same_bytes_same_results :
  forall bsz ask_full ask_copy, (1 <= bsz)%nat -> ask_ok ask_full -> ask_ok ask_copy ->
  forall fuel cfg st b1 b2, wf b1 -> wf b2 -> no_long_runs (b_src b1) -> no_long_runs (b_src b2) ->
    absl b1 = absl b2 ->
    decode_all1 bsz ask_full ask_copy fuel cfg st b1 = decode_all1 bsz ask_full ask_copy fuel cfg st b2.
Proof. intros. apply chunking_irrelevant; assumption. Qed.
Print Assumptions C14_same_bytes_same_results.

(* one Decode call: same result, and exactly the flat remainder is left unread *)
Theorem C14_single_call :
  forall bsz ask_full ask_copy, (1 <= bsz)%nat -> ask_ok ask_full -> ask_ok ask_copy ->
  forall cfg st b, wf b ->
    exists b', wf b' /\
      decode1 bsz ask_full ask_copy cfg st b = (fst (decode cfg st (absl b)), b') /\
      absl b' = snd (decode cfg st (absl b)).
Proof. intros. apply decode1_refines; assumption. Qed.
Print Assumptions C14_single_call.

(* the hypotheses are satisfiable: a source of three chunks, the last with EOF; a source with
   zero-length results before, between and after the data; both policies used by the run-time
   comparison *)
Example C14_nonvacuous :
  wf {| b_buf := []; b_err := false; b_src := [[Byte.x4b]; [Byte.x05; Byte.x2e]; [Byte.x4e]]; b_eofw := true |}
  /\ (let b := {| b_buf := []; b_err := false; b_src := [[]; [Byte.x4b]; []; []; [Byte.x05; Byte.x2e]; []]; b_eofw := true |} in
      wf b /\ no_long_runs (b_src b) /\
      decode_all1 4 (fun need => N.to_nat need) (fun need => N.to_nat need) 3 (Build_dconfig false false None) init_state b
      = decode_all 3 (Build_dconfig false false None) init_state [Byte.x4b; Byte.x05; Byte.x2e])
  /\ ask_ok (fun need => N.to_nat need) /\ ask_ok (fun need => Nat.min 512 (N.to_nat need)).
Proof.
  split; [split; discriminate|].
  split; [split; [split; discriminate|split; [cbn; repeat split; lia|vm_compute; reflexivity]]|].
  split; intros need H; split; lia.
Qed.
