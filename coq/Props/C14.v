(* C14 — placeholder theorems (totality of both models); the property itself is decided on every
   run by the checks described in DESIGN.md.  To be replaced by the real statement. *)
From Coq Require Import List ZArith NArith Bool.
From OgRek Require Import Base Value Reader Decoder DecoderFacts Encoder EncoderFacts.
Theorem C14_partial_totality :
  (forall cfg st inp, fst (fst (decode cfg st inp)) <> Panic /\ fst (fst (decode cfg st inp)) <> OutOfFuel)
  /\ (forall c v fa, snd (run_w (encode c v) fa) <> EPanic).
Proof. split; [exact decode_safe|exact encode_no_panic]. Qed.
