(* C17 — Unhashable dict keys produce an error, never a panic or a dropped entry. *)
From Coq Require Import List ZArith NArith Bool.
From OgRek Require Import Base Value PyEq Dict Reader Decoder PyEqFacts DictFacts DecoderFacts.
Import ListNotations.

(* ---- Decode: every opcode that inserts keys --------------------------------------------------- *)
(* key_rejected m k: the target m cannot hold k - a builtin map rejects what the Go runtime
   cannot hash (slice, map, Tuple, Call, bytearray, at any depth inside a Ref id), a Dict rejects
   what og-rek's hash rejects (list, dict, map, bytearray at any depth inside Tuple / Call
   arguments / Ref id). *)

Theorem C17_setitem_errors :
  forall cfg key insn st v k m t,
    d_stack st = v :: k :: m :: t -> is_mark k = false -> is_mark v = false ->
    (exists id, m = VMap id \/ m = VDict id) -> key_rejected m k ->
    handler cfg OSetitem key insn st = Ret (HErr (set_stack st (m :: t)) EOther).
Proof. exact setitem_rejects. Qed.
Print Assumptions C17_setitem_errors.

Theorem C17_setitems_errors :
  forall cfg key insn st above m t,
    split_mark (d_stack st) = Some (above, m :: t) -> Nat.odd (length above) = false ->
    (exists id, m = VMap id \/ m = VDict id) ->
    (exists k, In k (keys_of (rev above)) /\ key_rejected m k) ->
    exists h, handler cfg OSetitems key insn st = Ret (HErr (set_heap st h) EOther).
Proof. exact setitems_rejects. Qed.
Print Assumptions C17_setitems_errors.

Theorem C17_dict_errors :
  forall cfg key insn st above below,
    split_mark (d_stack st) = Some (above, below) -> Nat.odd (length above) = false ->
    (exists k, In k (keys_of (rev above)) /\
               (if c_pydict cfg then hashable k = false else go_unhashable k = true)) ->
    handler cfg ODict key insn st = Ret (HErr st EOther).
Proof. exact dict_rejects. Qed.
Print Assumptions C17_dict_errors.

(* an error result of a handler is what Decode returns (never a panic: C04) - by the loop's
   definition, HErr st e ends the call with Err e *)

(* ---- direct API ---------------------------------------------------------------------------------- *)
(* For every Dict state, every slot order and every key the hash function rejects, Get, Set and
   Del panic ("unhashable type: ...", None in the model) before any entry is read or written, so
   the contents are unchanged - including on an EMPTY Dict. *)
Theorem C17_api :
  forall ch k v es, hashable k = false ->
    dict_get ch k es = None /\ dict_set ch k v es = None /\ dict_del ch k es = None.
Proof. exact unhashable_panics. Qed.
Print Assumptions C17_api.

(* which keys are rejected: at depth 0..3 inside Tuple, Call arguments, Ref id *)
Example C17_unhashable_examples :
  hashable (VList 0%N []) = false /\ hashable (VBArr []) = false /\ hashable (VMap 0%N) = false /\
  hashable (VDict 0%N) = false /\
  hashable (VTuple [VInt 1; VTuple [VList 0%N []]]) = false /\
  hashable (VCall [] [] [VRef (VBArr [])]) = false /\
  hashable (VRef (VRef (VTuple [VCall [] [] [VDict 0%N]]))) = false /\
  hashable (VTuple [VInt 1; VStr []]) = true /\
  go_unhashable (VTuple []) = true /\ go_unhashable (VRef (VRef (VList 0%N []))) = true /\
  go_unhashable (VRef (VInt 1)) = false.
Proof. vm_compute. repeat split. Qed.
