(* C17 — Unhashable dict keys produce an error, never a panic or a dropped entry. *)
From Coq Require Import List ZArith NArith Bool.
From OgRek Require Import Base Value PyEq Dict PyEqFacts DictFacts.
Import ListNotations.

(* Direct API: for every Dict state and every key the hash function rejects, Get, Set and Del
   panic ("unhashable type: ...", None in the model) before any entry is read or written, so the
   contents are unchanged - including on an EMPTY Dict. *)
Theorem C17_api :
  forall ch k v es, hashable k = false ->
    dict_get ch k es = None /\ dict_set ch k v es = None /\ dict_del ch k es = None.
Proof. exact unhashable_panics. Qed.
Print Assumptions C17_api.

(* which keys are unhashable: lists, dicts, maps, bytearrays, at any depth inside Tuple,
   Call arguments, Ref id *)
Example C17_unhashable_examples :
  hashable (VList 0%N []) = false /\ hashable (VBArr []) = false /\ hashable (VMap 0%N) = false /\
  hashable (VDict 0%N) = false /\
  hashable (VTuple [VInt 1; VTuple [VList 0%N []]]) = false /\
  hashable (VCall [] [] [VRef (VBArr [])]) = false /\
  hashable (VTuple [VInt 1; VStr []]) = true.
Proof. vm_compute. repeat split. Qed.
