(* C11 — A stream of pickles decodes one value per call, each as if it stood alone. *)
From Coq Require Import List ZArith NArith Bool.
From Coq.Strings Require Import Byte.
From OgRek Require Import Base Value Reader Decoder DecoderFacts StreamFacts.
Import ListNotations.

(* Exactly through each STOP: if Decode accepts p (consuming all of it), then on p followed by
   anything it returns the same value and the same decoder state and leaves what follows
   untouched - for every configuration and every decoder state. *)
Theorem C11_framing :
  forall cfg st p v st' t,
    decode cfg st p = ((Ok v, st'), []) -> decode cfg st (p ++ t) = ((Ok v, st'), t).
Proof. exact decode_framing. Qed.
Print Assumptions C11_framing.

(* What an earlier pickle left on the operand stack, and the protocol it announced, cannot
   influence a later call (the two defects repaired by the "fix:" commit a918595). *)
Theorem C11_no_stack_or_protocol_carry_over :
  forall cfg st s p inp, decode cfg (set_proto (set_stack st s) p) inp = decode cfg st inp.
Proof. exact decode_ignores_stack_and_proto. Qed.
Print Assumptions C11_no_stack_or_protocol_carry_over.

(* Streams: for pickles p1..pn such that each decodes to a value from the state its predecessor
   left (chain), successive Decode calls on p1 ++ ... ++ pn return exactly those values, one per
   call, and then io.EOF. *)
Theorem C11_stream :
  forall cfg ps st rs fuel,
    chain cfg st ps rs -> (length ps < fuel)%nat ->
    fst (decode_all fuel cfg st (concat ps)) = rs ++ [(Err EEOF, start_state (final_state st rs))].
Proof. exact decode_all_chain. Qed.
Print Assumptions C11_stream.

(* NOT YET PROVED (hence the property is claimed as partial): that the value a self-contained
   pickle decodes to from the predecessor's state (memo, heap) equals - up to renaming of heap
   identities - the value it decodes to from a fresh Decoder, and that heap objects of earlier
   results are not written by later self-contained pickles.  Both are decided on every run by
   comparing each call with stand-alone decoding and by re-dumping earlier results afterwards. *)

Example C11_nonvacuous :
  let cfg := Build_dconfig false false None in
  exists rs, chain cfg init_state [[x4b; x01; x2e]; [x80; x03; x4e; x2e]] rs.
Proof.
  eexists. eapply chain_cons; [discriminate|vm_compute; reflexivity|].
  eapply chain_cons; [discriminate|vm_compute; reflexivity|]. apply chain_nil.
Qed.
