(* C11 — A stream of pickles decodes one value per call, each as if it stood alone. *)
From Coq Require Import List ZArith NArith Bool.
From Coq.Strings Require Import Byte.
From OgRek Require Import Base Value Reader Decoder Encoder Norm NormMaps Insn PyVM2 DecoderFacts StreamFacts ExecFacts SimFacts AloneFacts RoundTripMaps.
Import ListNotations.

(* Exactly through each STOP: if Decode accepts p (consuming all of it), then on p followed by
   anything it returns the same value and the same decoder state and leaves what follows
   untouched - for every configuration and every decoder state. *)
Theorem C11_framing :
  forall cfg st p v st' t,
    decode cfg st p = ((Ok v, st'), []) -> decode cfg st (p ++ t) = ((Ok v, st'), t).
Proof. exact decode_framing. Qed.
Print Assumptions C11_framing.

(* What an earlier pickle left on the operand stack, and the protocol it announced, cannot
   influence a later call (the two defects repaired by the "fix:" commit a918595). *)
Theorem C11_no_stack_or_protocol_carry_over :
  forall cfg st s p inp, decode cfg (set_proto (set_stack st s) p) inp = decode cfg st inp.
Proof. exact decode_ignores_stack_and_proto. Qed.
Print Assumptions C11_no_stack_or_protocol_carry_over.

(* Streams: for pickles p1..pn such that each decodes to a value from the state its predecessor
   left (chain), successive Decode calls on p1 ++ ... ++ pn return exactly those values, one per
   call, and then io.EOF. *)
Theorem C11_stream :
  forall cfg ps st rs fuel,
    chain cfg st ps rs -> (length ps < fuel)%nat ->
    fst (decode_all fuel cfg st (concat ps)) = rs ++ [(Err EEOF, start_state (final_state st rs))].
Proof. exact decode_all_chain. Qed.
Print Assumptions C11_stream.

(* "As if it stood alone", the memo.  A Decode call is self-contained (AloneFacts.self_contained, a
   computable test of the call's own run) when every GET / BINGET / LONG_BINGET it executes reads a
   key that a PUT / BINPUT / LONG_BINPUT of the same call wrote, and it executes no MEMOIZE (whose
   key is the size of the shared memo - in CPython too).  All of the encoder's output (it never
   emits a memo opcode) and the programs of the property are of this kind.  Such a call returns the
   same value or the same error, consumes the same bytes and leaves the same state up to the memo,
   whatever memo m the earlier pickles of the stream left behind - in particular the empty memo of
   a Decoder that has decoded nothing yet.  For every input, configuration and hook. *)
Theorem C11_memo_of_earlier_pickles_is_irrelevant : forall cfg st inp m,
  self_contained cfg st inp ->
  fst (fst (decode cfg (set_memo st m) inp)) = fst (fst (decode cfg st inp)) /\
  snd (decode cfg (set_memo st m) inp) = snd (decode cfg st inp) /\
  same_but_memo (snd (fst (decode cfg st inp))) (snd (fst (decode cfg (set_memo st m) inp))).
Proof. exact decode_self_contained. Qed.
Print Assumptions C11_memo_of_earlier_pickles_is_irrelevant.

(* "Values already returned are not altered by later Decode calls": a self-contained call never
   writes a map or Dict that existed when it started (ids below d_next st), whether it succeeds or
   fails - provided a PersistentLoad hook does not itself hand back one of the decoder's earlier
   maps (hook_fresh; trivially true without a hook).  Lists, tuples and scalars are immutable
   values in the model (the decoder never writes a Go slice in place: C06's stale-view finding is
   the other side of that).  For pickles that read the memo of an earlier pickle the statement is
   false by design - they may fetch an earlier dict and extend it, as under CPython
   (C11_shared_memo_stream below). *)
Theorem C11_earlier_values_not_altered : forall cfg st inp r st' rest,
  hook_fresh cfg (d_next st) -> self_contained cfg st inp ->
  decode cfg st inp = ((r, st'), rest) ->
  forall g, (g < d_next st)%N -> heap_get (d_heap st') g = heap_get (d_heap st) g.
Proof. exact decode_sc_keeps_old_objects. Qed.
Print Assumptions C11_earlier_values_not_altered.

(* a call that executes no memo opcode at all is self-contained *)
Theorem C11_memo_free_is_self_contained : forall cfg st inp,
  memo_freeb cfg st inp = true -> self_contained cfg st inp.
Proof. exact memo_free_self_contained. Qed.

(* non-vacuity: a pickle that stores a dict under key 0 and fetches it again, decoded by a decoder
   whose earlier pickle left another dict under the same key 0 and on the heap; and a pickle that
   fetches key 0 without storing it first is not self-contained *)
Example C11_self_contained_example :
  let cfg := Build_dconfig true false None in
  match decode cfg init_state [x7d; x71; x00; x4b; x01; x4b; x02; x73; x2e] with       (* }q\x00K\x01K\x02s. *)
  | ((Ok _, st1), _) =>
      self_containedb cfg st1 [x7d; x71; x00; x4b; x03; x68; x00; x73; x2e] = true /\   (* }q\x00K\x03h\x00s. *)
      self_containedb cfg st1 [x68; x00; x2e] = false /\                                (* h\x00. *)
      d_memo st1 <> [] /\ hook_fresh cfg (d_next st1)
  | _ => False
  end.
Proof. vm_compute. repeat split; try discriminate. Qed.

(* Streams of Encode output: "as if it stood alone" in full, identities included.  For any list of
   values written back to back by Encoders at any mix of protocols (same StrictUnicode as the
   Decoder), each with a normal form (norm2: the C03 fragment with maps, Dicts and structs), any
   hook meeting hook_spec, ANY prior state of the Decoder (well-formed heap: every reachable state)
   and any bytes after the stream: successive Decode calls return, one per pickle, a value whose
   content read through the heap is exactly the normal form of that pickle's value - which does not
   mention the Decoder's history at all, so it is what a fresh Decoder returns - consuming exactly
   through each STOP; the heap only grows (gext), so everything returned earlier keeps its content
   (enc_stream_contents). *)
Theorem C11_stream_of_encodings : forall pd su load g its st rest,
  hook_spec load g -> heap_bound st ->
  Forall (fun it : sitem => let '(c, v, cvl) := it in
            e_strict c = su /\ (0 <= e_proto c <= 5)%Z /\ norm2 c pd g v = Some cvl) its ->
  exists xs stf,
    enc_stream (Build_dconfig pd su load) st (concat (map sbytes its) ++ rest) its xs stf rest /\
    heap_bound stf.
Proof. exact decode_stream_of_encodings. Qed.
Print Assumptions C11_stream_of_encodings.

Theorem C11_returned_values_keep_their_content : forall cfg st inp its xs stf restf,
  enc_stream cfg st inp its xs stf restf ->
  Forall (fun xc => content (d_heap stf) (fst xc) (snd xc)) xs.
Proof. exact enc_stream_contents. Qed.
Print Assumptions C11_returned_values_keep_their_content.

(* Streams against CPython (stream_rel, Proofs/SimFacts.v).  For EVERY list of instruction programs
   (each ending with its STOP) - self-contained or not, at any mix of protocols, sharing the memo or
   not - and every PyDict / StrictUnicode setting: if successive load() calls on one CPython
   Unpickler (PyVM2.qload_all: the Unpickler keeps its memo and objects, each call starts with an
   empty stack and protocol 0) return x1, x2, ..., then successive Decode calls on one Decoder over
   the concatenated bytes return, call by call, a value related to the corresponding xk (C06
   relation R, in the Python heap of that moment), consuming exactly through that pickle's STOP -
   until one of the two exceptions of C06 occurs (a stale list view, the recorded finding; or, PyDict
   off, the documented map-key error, which Decode reports as an error at that call).
   `_partial`: relative to the CPython machine
   (compared with CPython's own successive load() calls on every run) and up to R; the statement
   "equal to decoding the pickle with a fresh Decoder" as an equation between Go values is decided
   by the run (each call compared with stand-alone decoding, earlier results re-dumped at the end). *)
Theorem C11_stream_against_cpython_partial : forall pd su progs xs rest,
  Forall (fun p => after_stop p = []) progs ->
  qload_all progs q_init = Some xs ->
  stream_rel pd su init_state (concat (map asm_all progs) ++ rest) xs.
Proof. exact stream_sim_fresh. Qed.
Print Assumptions C11_stream_against_cpython_partial.

(* two pickles sharing the memo: the second fetches the dict the first one stored and extends it *)
Example C11_shared_memo_stream :
  let p1 := [IEmptyDict; IBinput 2; IStop] in
  let p2 := [IBinget 2; IBinint1 1; IBinint1 2; ISetitem; IStop] in
  Forall (fun p => after_stop p = []) [p1; p2] /\
  match qload_all [p1; p2] q_init with
  | Some [(QRef a, _); (QRef b, st2)] => a = b /\ qheap_get (q_heap st2) b = Some (ODict [(QInt 1, QInt 2)])
  | _ => False
  end.
Proof. vm_compute. repeat split; repeat constructor. Qed.

Example C11_nonvacuous :
  let cfg := Build_dconfig false false None in
  exists rs, chain cfg init_state [[x4b; x01; x2e]; [x80; x03; x4e; x2e]] rs.
Proof.
  eexists. eapply chain_cons; [discriminate|vm_compute; reflexivity|].
  eapply chain_cons; [discriminate|vm_compute; reflexivity|]. apply chain_nil.
Qed.
