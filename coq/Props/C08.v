(* C08 — Dict is a correct map under every history of Set, Del, Get and Iter. *)
From Coq Require Import List ZArith NArith Bool.
From OgRek Require Import Base Value PyEq Dict PyEqFacts DictFacts.
Import ListNotations.

(* Scope of these theorems: every hashable key (nf_key: bool, every Go integer type, *big.Int,
   float64 / float32, complex, string / Bytes / ByteString, Tuples, None, Class, Call, Ref - the
   whole 10-key colliding alphabet of the property, 1.0 included).  The chooser ch stands for
   gomap's bucket and slot order: every theorem holds for all of them. *)

(* After any history, the Dict holds exactly the reference dictionary's entries: Set and Del
   first remove every entry whose key equals their argument; Len = number of entries; Iter
   yields each entry once (the entry list itself). *)
Theorem C08_history_refines :
  forall ch ops es,
    Forall (fun o => nf_key (op_key o) = true) ops -> nf_entries es ->
    fold_left (fun acc o => match acc with Some e => dict_step ch e o | None => None end) ops (Some es)
    = Some (fold_left ref_step ops es) /\ nf_entries (fold_left ref_step ops es).
Proof. exact history_refines. Qed.
Print Assumptions C08_history_refines.

(* no two stored keys are ever equal to each other *)
Theorem C08_no_equal_keys :
  forall ops es,
    Forall (fun o => nf_key (op_key o) = true) ops -> nf_entries es -> distinct es ->
    distinct (fold_left ref_step ops es).
Proof. exact history_distinct. Qed.
Print Assumptions C08_no_equal_keys.

(* Get agrees with the reference dictionary (value most recently Set under an equal key and
   not deleted since) whenever at most one stored key equals the query ... *)
Theorem C08_get_partial :
  forall ch k es, nf_key k = true -> nf_entries es -> unique_match k es ->
    dict_get ch k es = Some (ref_get k es).
Proof. exact dict_get_is_ref. Qed.
Print Assumptions C08_get_partial.

(* ... and in general returns the value of SOME stored entry with an equal key, and absence
   exactly when the reference dictionary reports absence.  The full statement ("the most
   recently set one") is FALSE of the code when a ByteString query equals two mutually
   unequal stored keys: see C08_get_refuted and known finding nontransitive_multi_match. *)
Theorem C08_get_sound :
  forall ch k es, nf_key k = true -> nf_entries es ->
    match dict_get ch k es with
    | Some (Some v) => exists a, In (a, v) es /\ py_eq k a = true
    | Some None => ref_get k es = None
    | None => False
    end.
Proof. exact dict_get_sound. Qed.
Print Assumptions C08_get_sound.

(* witness: Set("a",1); Set(Bytes "a",2); Get(ByteString "a") with first-slot order gives 1,
   the reference dictionary (most recent) gives 2 *)
Theorem C08_get_refuted :
  exists ch k es, nf_key k = true /\ nf_entries es /\ distinct es /\
                  dict_get ch k es <> Some (ref_get k es).
Proof.
  exists choose_first, (VBStr [Byte.x61]),
         [(VStr [Byte.x61], VInt 1); (VBytes [Byte.x61], VInt 2)].
  split; [reflexivity|]. split; [repeat constructor|]. split.
  - cbn. split; [constructor; [split; reflexivity|constructor]|split; [constructor|exact I]].
  - vm_compute. discriminate.
Qed.
Print Assumptions C08_get_refuted.

(* the Del loop terminates: more fuel than (entries + 1) changes nothing *)
Theorem C08_del_terminates :
  forall ch k es fuel, (length es < fuel)%nat ->
    dict_del_loop fuel ch k es = dict_del_loop (S (length es)) ch k es.
Proof. exact del_loop_terminates. Qed.
Print Assumptions C08_del_terminates.
