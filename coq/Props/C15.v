(* C15 — Encode never panics: unsupported Go types yield an error. *)
From Coq Require Import List ZArith NArith Bool.
From OgRek Require Import Base Encoder EncoderFacts.
Import ListNotations.

(* rval is an inductive tree, so "acyclic" holds by construction.  For every value of the
   reflect-level universe (all integer/float kinds, named string and byte types, byte arrays,
   typed nil pointers, pointer chains, structs with unexported / embedded / tagged fields, maps
   with any key type, channels, funcs, complex, uintptr, unsafe.Pointer), every configuration
   and every Writer behaviour, Encode returns normally. *)
Theorem C15_no_panic :
  forall c v fa, snd (run_w (encode c v) fa) <> EPanic.
Proof. exact encode_no_panic. Qed.
Print Assumptions C15_no_panic.

(* an unsupported kind is reported as a TypeError naming that kind *)
Example C15_type_errors :
  let c := Build_econfig 2 false (fun _ => false) (fun _ => []) in
  snd (run_w (encode c (RList [RInt 1; RUnsup UChan])) None) = EErr (ETypeErr UChan) /\
  snd (run_w (encode c (RStruct [SField [Byte.x41] true [] (RUnsup UComplex128)])) None) = EErr (ETypeErr UComplex128) /\
  snd (run_w (encode c RNilPtr) None) = EOk /\
  snd (run_w (encode c (RPtr true None (RStruct [SField [Byte.x61] false [Byte.x61] (RStr SPlain [])]))) None) = EOk.
Proof. vm_compute. repeat split. Qed.
