(* C13 — A failing Writer always surfaces as Encode's error, with no writes after it. *)
From Coq Require Import List ZArith NArith Bool.
From OgRek Require Import Base Encoder EncoderFacts.
Import ListNotations.

(* For every configuration (protocol, StrictUnicode, oracles), every value and every k: let ws
   be the Write calls of the run in which no Write fails.  If the k-th Write (k < |ws|) fails,
   Encode returns the Writer's error (never nil) and the Write calls made are exactly the first
   k+1 of ws: nothing is written after the failure. *)
Theorem C13_write_failure :
  forall c v k ws r,
    run_w (encode c v) None = (ws, r) -> (k < length ws)%nat ->
    run_w (encode c v) (Some k) = (firstn (S k) ws, EWriteErr).
Proof. intros c v. exact (run_w_fail_at (encode c v)). Qed.
Print Assumptions C13_write_failure.

(* a failure index beyond the last Write never materialises: same writes, same result *)
Theorem C13_no_spurious_failure :
  forall c v k ws r,
    run_w (encode c v) None = (ws, r) -> (length ws <= k)%nat ->
    run_w (encode c v) (Some k) = (ws, r).
Proof. intros c v. exact (run_w_fail_late (encode c v)). Qed.
Print Assumptions C13_no_spurious_failure.

(* the pickle is the concatenation of the Write calls, however the Writer buffers them: the
   model's `output` is defined as that concatenation, so buffering independence holds by
   construction; what is checked on the implementation is that a buffering Writer sees the
   same bytes (harness: bufio.Writer of 1 and 16 bytes). *)

Example C13_nonvacuous :
  let c := Build_econfig 2 false (fun _ => false) (fun _ => []) in
  exists ws, run_w (encode c (RList [RInt 1; RStr SPlain [Byte.x61]])) None = (ws, EOk) /\ length ws = 7%nat.
Proof. eexists. split; vm_compute; reflexivity. Qed.
