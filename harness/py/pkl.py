"""Independent view of a pickle byte string through CPython's own pickletools: opcode table
(introducing protocol, argument layout, stack effect), disassembly, stack discipline, and an
order-insensitive canonical form (entries of MARK..DICT sorted) for comparing encoder outputs."""
import io, pickletools, struct

# pickletools decodes string arguments strictly (ascii / utf-8) only to DISPLAY them; a pickle whose
# payload is not valid text is still a well-formed opcode stream.  Keep pickletools' opcode table,
# argument layout and stack machinery, but make the text readers lenient.
def _lenient(reader, fallback):
    def r(f):
        pos = f.tell()
        try:
            return reader(f)
        except (UnicodeDecodeError, UnicodeEncodeError, ValueError):     # incl. escape_decode's complaints
            f.seek(pos)
            return fallback(f)
    return r

def _line(f):
    data = f.readline()
    if not data.endswith(b"\n"):
        raise ValueError("no newline found when trying to read a line")
    return data[:-1].decode("latin-1")

def _counted(fmt, size):
    def r(f):
        raw = f.read(size)
        if len(raw) < size: raise ValueError("not enough data for the length")
        n = struct.unpack(fmt, raw)[0]
        data = f.read(n)
        if len(data) < n: raise ValueError("expected %d bytes, %d remain" % (n, len(data)))
        return data.decode("latin-1")
    return r

def _line_pair(f):
    return "%s %s" % (_line(f), _line(f))

for _name, _fb in (("stringnl", _line), ("unicodestringnl", _line), ("stringnl_noescape", _line),
                   ("stringnl_noescape_pair", _line_pair), ("string1", _counted("<B", 1)),
                   ("string4", _counted("<i", 4)), ("unicodestring1", _counted("<B", 1)),
                   ("unicodestring4", _counted("<I", 4)), ("unicodestring8", _counted("<Q", 8))):
    _d = getattr(pickletools, _name)
    _d.reader = _lenient(_d.reader, _fb)

def ops(data):
    """[(name, proto, arg, pos)] or raises"""
    return [(op.name, op.proto, arg, pos) for op, arg, pos in pickletools.genops(data)]

def check_conformance(data, proto):
    """C12 on one output: returns None if conformant, else a description"""
    try:
        l = ops(data)
    except Exception as e:
        return "not a well-formed opcode stream: %s" % e
    if not l:
        return "empty output"
    names = [x[0] for x in l]
    if (names[0] == "PROTO") != (proto >= 2):
        return "PROTO opcode present=%s at protocol %d" % (names[0] == "PROTO", proto)
    if names[0] == "PROTO" and l[0][2] != proto:
        return "PROTO argument %r at protocol %d" % (l[0][2], proto)
    if "PROTO" in names[1:]:
        return "PROTO not at the start"
    for name, p, arg, pos in l:
        if p > proto:
            return "opcode %s (protocol %d) used at protocol %d, offset %d" % (name, p, proto, pos)
    if names.count("STOP") != 1 or names[-1] != "STOP":
        return "STOP count %d / last opcode %s" % (names.count("STOP"), names[-1])
    # bytes after STOP?
    last_pos = l[-1][3]
    if last_pos != len(data) - 1:
        return "trailing bytes after STOP"
    # stack discipline + exactly one object left: pickletools.dis validates both
    try:
        pickletools.dis(data, out=io.StringIO())
    except Exception as e:
        return "stack discipline: %s" % e
    return None

def insn_table_mismatch(data, prog_tokens):
    """tie of Model/Insn.v to pickletools: prog_tokens = the model's 'asmhex:iproto:need:delta'
    entries for this very byte string; every entry must be one pickletools instruction with the
    same bytes, the same introducing protocol and the same stack effect.  None if all agree."""
    try:
        l = list(pickletools.genops(data))
    except Exception as e:
        return "pickletools cannot scan the bytes: %s" % e
    if len(l) != len(prog_tokens):
        return "instruction count: pickletools %d, model program %d" % (len(l), len(prog_tokens))
    bounds = [pos for _, _, pos in l] + [len(data)]
    for k, ((op, arg, pos), tok) in enumerate(zip(l, prog_tokens)):
        hx, pr, need, delta = tok.split(":")
        if data[bounds[k]:bounds[k + 1]].hex() != hx:
            return "instruction %d (%s): bytes %s, model asm %s" % (k, op.name, data[bounds[k]:bounds[k + 1]].hex()[:60], hx[:60])
        if op.proto != int(pr):
            return "instruction %s: pickletools protocol %d, Insn.iproto %s" % (op.name, op.proto, pr)
        before, after = op.stack_before, op.stack_after
        if pickletools.markobject in before:
            want = ("mark", str(1 + len(after)))
        else:
            want = (str(len(before)), str(len(after) - len(before)))
        if (need, delta) != want:
            return "instruction %s: pickletools stack effect %s, Insn.sd_step %s" % (op.name, want, (need, delta))
    return None

def canon(data):
    """bytes with MARK..DICT entries sorted; falls back to the raw bytes when an opcode outside
    the encoder's repertoire appears"""
    try:
        l = list(pickletools.genops(data))
    except Exception:
        return data
    MARK = object()
    stack, prefix = [], b""
    n = len(l)
    for idx, (op, arg, pos) in enumerate(l):
        end = l[idx + 1][2] if idx + 1 < n else len(data)
        raw = data[pos:end]
        nm = op.name
        if nm in ("PROTO", "FRAME"):
            prefix += raw
        elif nm == "MARK":
            stack.append(MARK)
        elif nm in ("TUPLE", "LIST", "DICT"):
            items = []
            while stack and stack[-1] is not MARK:
                items.append(stack.pop())
            if not stack:
                return data
            stack.pop()
            items.reverse()
            if nm == "DICT":
                if len(items) % 2:
                    return data
                pairs = sorted(items[i] + items[i + 1] for i in range(0, len(items), 2))
                stack.append(b"(" + b"".join(pairs) + raw)
            else:
                stack.append(b"(" + b"".join(items) + raw)
        elif nm in ("TUPLE1", "BINPERSID"):
            if len(stack) < 1 or stack[-1] is MARK: return data
            stack.append(stack.pop() + raw)
        elif nm in ("TUPLE2", "REDUCE", "STACK_GLOBAL"):
            if len(stack) < 2 or MARK in stack[-2:]: return data
            b = stack.pop(); a = stack.pop(); stack.append(a + b + raw)
        elif nm == "TUPLE3":
            if len(stack) < 3 or MARK in stack[-3:]: return data
            c = stack.pop(); b = stack.pop(); a = stack.pop(); stack.append(a + b + c + raw)
        elif nm == "STOP":
            if len(stack) != 1 or stack[0] is MARK: return data
            return prefix + stack[0] + raw
        elif op.stack_before == [] and len(op.stack_after) == 1:
            stack.append(raw)
        else:
            return data
    return data
