"""C06, C02, C09, C01: checks whose direct oracle is CPython itself (pyref)."""
import os, io, pickle, pickletools, re, struct
import common as C
import genprog as G
import encgen as E
import pyref as R
import pyvals as PV
from props import check, parts, strip_model, gen_pickles, CONFIGS, kept_corpus
from props_enc import enc_values, enc_obs, run_enc, kinds_hist

KNOWN_STALE = "stale_list_view"

def known(pid, cls):
    return [k for k in C.load_known_findings() if k.get("property") == pid and k.get("class") == cls]

def compare_with_cpython(res, pid, programs, what, extra_check=None):
    """programs: list of bytes.  For each: CPython reference (both StrictUnicode readings) vs the
    implementation in 4 configs (and vs the decoder model).  Returns statistics."""
    lines, meta = [], []
    for i, p in enumerate(programs):
        for pd, su in CONFIGS:
            lines.append("dec %s %s 0 %s" % (pd, su, p.hex())); meta.append((i, pd, su))
    impl = C.implrun(lines)
    model = C.modelrun(lines)
    refs, dicts = {}, {}
    stats = {"cpython_ok": 0, "cpython_fail": 0, "compared": 0, "stale": 0, "multi": 0, "cyclic": 0, "map_key_errors": 0}
    stale_seen = None
    corr = []
    for j, (i, pd, su) in enumerate(meta):
        p = programs[i]
        key = (i, su)
        if key not in refs:
            try:
                refs[key] = R.pyload(p, su == "1")
                dicts[key] = R.LAST_DICTS
            except RecursionError:
                refs[key] = (False, None)
        ok, obj = refs[key]
        io_, mo = impl[j], model[j]
        if strip_model(mo) != io_ and "#staleappend" not in mo:
            corr.append((p, pd, su, mo, io_))
        if not ok:
            stats["cpython_fail"] += 1
            continue
        stats["cpython_ok"] += 1
        first = parts(io_)[0]
        is_stale = "~stale" in parts(mo)[0] or "#staleappend" in mo
        try:
            need_err = R.contains_dict_with_unhashable(obj, pd == "1") or R.any_dict_with_unhashable(dicts.get(key, []), pd == "1")
        except RecursionError:
            continue
        if need_err:
            stats["map_key_errors"] += 1
            if first.startswith("ok"):
                res.violation("%s: CPython builds a dict with a key a Go map cannot hold; Decode must fail but returns %s" % (what, first[:100]),
                              {"kind": "impl", "input_hex": p.hex(), "pydict": pd, "strict": su, "observed": io_[:400],
                               "cpython": repr(obj)[:400], "cmd": "echo '%s' | harness/go/implrun" % lines[j][:400]})
            continue
        flags = {}
        try:
            good = first.startswith("ok ") and first[3:] != "TOOBIG" and R.equiv(R.parse_go(first[3:]), obj, pd == "1", flags=flags)
            if first == "ok TOOBIG":
                continue
        except R.Cyclic:
            stats["cyclic"] += 1
            continue
        except RecursionError:
            continue
        if flags.get("multi"):
            stats["multi"] += 1
            continue
        if good:
            stats["compared"] += 1
            if extra_check:
                extra_check(res, p, pd, su, obj, io_)
            continue
        if is_stale:
            stats["stale"] += 1
            if stale_seen is None:
                stale_seen = (p, pd, su, first, obj)
            continue
        res.violation("%s: CPython loads %s, Decode gives %s" % (what, repr(obj)[:160], first[:160]),
                      {"kind": "impl", "input_hex": p.hex(), "pydict": pd, "strict": su, "observed": io_[:600],
                       "cpython": repr(obj)[:600], "disassembly": dis(p)[:1500],
                       "cmd": "echo '%s' | harness/go/implrun" % lines[j][:400]})
    # the CPython machine of the model (PyVM2.qload, the specification the C06 / C02 / C09 theorems
    # are stated against) vs CPython itself: wherever the machine answers, CPython must load the same
    ql = C.modelrun(["qload " + p.hex() for p in programs])
    stats.update({"pyvm2_answers": 0, "pyvm2_giveup": 0, "pyvm2_not_canonical": 0})
    nbad = 0
    for i, q in enumerate(ql):
        if q == "NODIS": stats["pyvm2_not_canonical"] += 1; continue
        if not q.startswith("ok "): stats["pyvm2_giveup"] += 1; continue
        key = (i, "1")
        if key not in refs:
            try: refs[key] = R.pyload(programs[i], True)
            except RecursionError: continue
        ok, obj = refs[key]
        flags = {}
        try:
            same = ok and R.equiv(R.parse_go(q[3:]), obj, True, flags=flags)
        except (R.Cyclic, RecursionError):
            continue
        if flags.get("multi"): continue
        stats["pyvm2_answers"] += 1
        if not same and nbad < 3:
            nbad += 1
            res.violation("%s: the CPython machine of the model (PyVM2) loads %s, CPython itself %s" % (what, q[3:160], (repr(obj) if ok else "error %r" % (obj,))[:160]),
                          {"kind": "correspondence", "theorem": "PyVM2.v (specification of C06/C02/C09)", "input_hex": programs[i].hex(),
                           "pyvm2": q[:800], "cpython": repr(obj)[:800], "disassembly": dis(programs[i])[:1500]})
    # correspondence breaks are reported after the concrete violations the oracle found
    for p, pd, su, mo, io_ in corr[:5]:
        res.violation("correspondence: decoder model and implementation differ",
                      {"kind": "correspondence", "input_hex": p.hex(), "pydict": pd, "strict": su,
                       "model": mo[:500], "impl": io_[:500]}, found_input=False)
    if stats["stale"]:
        if known(pid, KNOWN_STALE):
            p, pd, su, first, obj = stale_seen
            res.known.append("%s: a list that is memoised or DUPed and then extended through one of the copies is not shared (Go slice headers are copied): %d cases in this run, e.g. %s -> Decode %s, CPython %s"
                             % (KNOWN_STALE, stats["stale"], p.hex()[:80], first[:80], repr(obj)[:80]))
        else:
            p, pd, su, first, obj = stale_seen
            res.violation("%s: a list extended after being memoised / duplicated is not shared: Decode %s, CPython %s" % (what, first[:120], repr(obj)[:120]),
                          {"kind": "impl", "input_hex": p.hex(), "pydict": pd, "strict": su, "observed": first[:400], "cpython": repr(obj)[:400]})
    return stats, lines, impl

def dis(p):
    out = io.StringIO()
    try:
        pickletools.dis(p, out=out)
    except Exception as e:
        out.write("\n(%s)" % e)
    return out.getvalue()

# =============================================================================================
# C06 — no disagreement with CPython on any well-formed opcode program
# =============================================================================================
SHORT_ALPHABET = [b"]", b"}", b")", b"K\x01", b"K\x02", b"a", b"s", b"2", b"0", b"q\x00", b"h\x00", b"\x85", b"\x86", b"(", b"e", b"u", b"t", b"l", b"d"]

def short_programs(maxlen):
    out = []
    def rec(prefix, n):
        if prefix:
            out.append(b"".join(prefix) + b".")
        if n == 0: return
        for op in SHORT_ALPHABET:
            prefix.append(op); rec(prefix, n - 1); prefix.pop()
    rec([], maxlen)
    return out

def sharing_matrix(kinds=("list", "dict")):
    """a container that gets a second reference (memo in every key width, or DUP) while empty /
    half filled / complete, is filled by every opcode form in several sizes, and is then observed
    through both references (and from inside itself)"""
    out = []
    item = lambda i: b"K" + bytes([i % 256])
    pair = lambda i: b"M" + bytes([i % 256, 1]) + b"K" + bytes([i % 256])
    refs = [(b"q\x05", b"h\x05"), (b"p5\n", b"g5\n"), (b"r\x05\x00\x00\x00", b"j\x05\x00\x00\x00"), (b"\x94", b"h\x00"),
            (b"q\x05", b"g5\n"), (b"p5\n", b"j\x05\x00\x00\x00")]
    def fills(kind, lo, hi):
        n = hi - lo
        if kind == "list":
            return [b"".join(item(i) + b"a" for i in range(lo, hi)), b"(" + b"".join(item(i) for i in range(lo, hi)) + b"e"]
        return [b"".join(pair(i) + b"s" for i in range(lo, hi)), b"(" + b"".join(pair(i) for i in range(lo, hi)) + b"u"]
    for kind in kinds:
        empty = b"]" if kind == "list" else b"}"
        for n in (0, 1, 2, 8, 9, 20):
            for when in ("empty", "half", "full"):
                h = {"empty": 0, "half": n // 2, "full": n}[when]
                for f1 in fills(kind, 0, h):
                    for f2 in fills(kind, h, n):
                        for put, get in refs:
                            out.append(empty + f1 + put + f2 + get + b"\x86.")            # (c, c)
                            out.append(b"(" + empty + f1 + put + f2 + get + b"K\x01" + b"t.")
                        out.append(empty + f1 + b"2" + f2 + b"\x86.")                      # DUP
                        if kind == "dict":
                            out.append(empty + f1 + b"q\x05" + f2 + b"K\x63h\x05s.")        # d[99] = d
                            out.append(b"]" + empty + f1 + b"q\x05" + f2 + b"ah\x05a.")       # [d, d]
        # built by MARK..LIST / MARK..DICT, then referenced twice
        for n in (0, 1, 9):
            body = b"".join(item(i) for i in range(n)) if kind == "list" else b"".join(pair(i) for i in range(n))
            out.append(b"(" + body + (b"l" if kind == "list" else b"d") + b"q\x05h\x05\x86.")
            out.append(b"(" + body + (b"l" if kind == "list" else b"d") + b"2\x86.")
    return out

@check("C06")
def c06(res, rng, tier):
    q = tier == "quick"
    gen, hist = gen_pickles(rng.fork("gen"), 2500 if q else 40000)
    progs = kept_corpus("C06") + gen + short_programs(3 if q else 5) + sharing_matrix()
    # the witnesses of the listed finding always run
    progs += [b"]q\x00K\x01ah\x00\x86.", b"]2K\x01a\x86.", b"\x80\x02]q\x00(]q\x01(K\x01K\x02eh\x01e."]
    stats, lines, impl = compare_with_cpython(res, "C06", progs, "opcode program")
    res.coverage.update({
        "evaluations": len(lines), "distinct_nontrivial": stats["compared"],
        "rule": "programs from the typed grammar (every opcode variant: PUT/BINPUT/LONG_BINPUT/MEMOIZE, GET/BINGET/LONG_BINGET, DUP, POP, APPEND(S), SETITEM(S), DICT/LIST/TUPLE/TUPLE1-3, every int/str/bytes form, GLOBAL/STACK_GLOBAL, REDUCE, PERSID/BINPERSID, PROTO, FRAME) + exhaustive programs of <= %d opcodes over a %d-opcode alphabet, x 4 configs; reference = CPython's pickle._Unpickler with symbolic classes / persistent ids, STRING-family read per the decoder mode; non-trivial = cases where CPython succeeds and the two results were compared structurally" % (3 if q else 5, len(SHORT_ALPHABET)),
        "programs": len(progs), "disagreements_checked": len(lines), "opcode_histogram_generated": hist, **stats})
    res.samples = [{"program_hex": progs[i].hex()[:120], "impl": impl[4 * i][:160]} for i in range(0, len(progs), max(1, len(progs) // 6))]

# =============================================================================================
# C09 — dict opcodes build Python's dict in PyDict mode and a plain Go map otherwise
# =============================================================================================
def dict_programs(rng, n):
    keys = [b"K\x01", b"G\x3f\xf0\x00\x00\x00\x00\x00\x00", b"\x88", b"\x8a\x01\x01", b"L1L\n", b"I1\n", b"I01\n",
            # NOTE bytes keys use another letter: b'a' next to 'a' and py2 'a' would make the py2 str
            # bridge two unequal keys (the non-transitive corner that is C08's known finding)
            b"X\x01\x00\x00\x00a", b"U\x01a", b"S'a'\n", b"C\x01c", b"Va\n",
            b"K\x01X\x01\x00\x00\x00a\x86", b"G\x3f\xf0\x00\x00\x00\x00\x00\x00U\x01a\x86", b"\x8a\x01\x01C\x01c\x86", b")", b"K\x01\x85",
            b"K\x00", b"G\x00\x00\x00\x00\x00\x00\x00\x00", b"G\x80\x00\x00\x00\x00\x00\x00\x00", b"\x89", b"G\x7f\xf8\x00\x00\x00\x00\x00\x00",
            b"N", b"cm\nC\n", b"K\x02", b"J\x00\x00\x00\x80", b"\x8a\x09\x00\x00\x00\x00\x00\x00\x00\x80\x00", b"G\x43\xe0\x00\x00\x00\x00\x00\x00",
            b"U\x01b", b"X\x02\x00\x00\x00\xc3\xa9", b"U\x02\xc3\xa9", b"K\x05Q", b"Px\n"]
    out = []
    for i in range(n):
        r = rng.fork("d%d" % i)
        def val(depth=0):
            if depth < 2 and r.below(5) == 0:
                return build(depth + 1)
            return r.choice([b"K\x07", b"N", b"X\x01\x00\x00\x00v", b"]", b")", b"K\x09"])
        def build(depth=0):
            n = r.choice([0, 1, 2, 3, 4, 6])
            pairs = [(r.choice(keys), val(depth)) for _ in range(n)]
            f = r.below(4)
            if f == 0:
                return b"(" + b"".join(k + v for k, v in pairs) + b"d"
            out_ = b"}"
            if r.below(3) == 0:
                out_ += b"q\x07"
            if f == 1:
                return out_ + b"".join(k + v + b"s" for k, v in pairs)
            if f == 2:
                return out_ + b"(" + b"".join(k + v for k, v in pairs) + b"u"
            # mixed: some by SETITEM, rest by SETITEMS, then reached again through the memo
            h = len(pairs) // 2
            return (out_ + b"".join(k + v + b"s" for k, v in pairs[:h]) + b"(" + b"".join(k + v for k, v in pairs[h:]) + b"u"
                    + b"q\x09" + b"0h\x09" + (r.choice(keys) + b"K\x2as" if r.below(2) else b""))
        out.append(r.choice([b"", b"\x80\x02", b"\x80\x04"]) + build() + b".")
    return out

def numeric_collision_programs():
    """one number in every representation a pickle has for it (INT / LONG text, LONG1, BININT forms where they fit,
    BINFLOAT when exact), every ordered pair as two dict keys, in the three dict-building forms: integers and floats
    of both signs at and beyond the int64 / uint64 / 2^53 edges - CPython keeps ONE entry per value"""
    import pickle
    out = []
    zs = []
    for m in (2**53, 2**53 + 2, 2**62, 2**63 - 1024, 2**63, 2**63 + 2**11, 2**64, 2**64 + 2**12, 2**70, 2**100, 2**1023, 3 * 2**80, 5, 0):
        zs += [m, -m]
    for z in zs:
        forms = [b"L%dL\n" % z, pickle.dumps(z, 2)[2:-1]]
        if -2**31 <= z < 2**31: forms.append(b"J" + struct.pack("<i", z))
        if abs(z) < 2**63 or z == -2**63: forms.append(b"I%d\n" % z)
        try:
            f = float(z)
            if int(f) == z: forms.append(b"G" + struct.pack(">d", f))
        except OverflowError:
            pass
        for a in forms:
            for b_ in forms:
                if a is b_: continue
                out += [b"}" + a + b"K\x01s" + b_ + b"K\x02s.", b"(" + a + b"K\x01" + b_ + b"K\x02d.", b"}(" + a + b"K\x01" + b_ + b"K\x02u."]
    return out

@check("C09")
def c09(res, rng, tier):
    progs = kept_corpus("C09") + dict_programs(rng.fork("dicts"), 3000 if tier == "quick" else 50000) + sharing_matrix(("dict",))
    progs += numeric_collision_programs()
    stats, lines, impl = compare_with_cpython(res, "C09", progs, "dict-building program")
    # the non-transitive corner, which CPython 3 cannot express (a Python-2 str equal to both the str and the
    # bytes of the same content): every order of the three kinds in every dict-building opcode; the reference
    # is the decoder model, whose Dict is the reference dictionary under Python equality by the C08 theorems
    import itertools
    kinds = {"u": b"X\x01\x00\x00\x00a", "b": b"C\x01a", "z": b"U\x01a", "tu": b"X\x01\x00\x00\x00aK\x01\x86", "tb": b"C\x01aK\x01\x86", "tz": b"U\x01aK\x01\x86"}
    nt_progs = []
    for fam in (("u", "b", "z"), ("tu", "tb", "tz")):
        for n in (2, 3):
            for perm in itertools.permutations(fam, n):
                ks = [kinds[k] for k in perm]
                pairs = b"".join(k + b"K" + bytes([i + 1]) for i, k in enumerate(ks))
                nt_progs += [b"(" + pairs + b"d.", b"}(" + pairs + b"u.", b"}" + b"".join(k + b"K" + bytes([i + 1]) + b"s" for i, k in enumerate(ks)) + b".",
                             b"}q\x00(" + pairs + b"uh\x00."]
    # keys equal to MANY stored keys at once: tuples of 2 and 3 strings, every unicode/bytes combination stored
    # (4 resp. 8 mutually unequal keys), then the all-Python-2-str tuple that equals each of them; plus random
    # sequences over the whole 3^n key space
    item = {"u": b"X\x01\x00\x00\x00a", "b": b"C\x01a", "z": b"U\x01a"}
    def tkey(word):
        return b"".join(item[c] for c in word) + {2: b"\x86", 3: b"\x87"}[len(word)]
    rr = rng.fork("multi")
    seqs = []
    for n in (2, 3):
        ub = ["".join(w) for w in itertools.product("ub", repeat=n)]
        allw = ["".join(w) for w in itertools.product("ubz", repeat=n)]
        seqs += [ub + ["z" * n], ["z" * n] + ub, ub[::-1] + ["z" * n] + ub[:1], ub + ["z" * n, "z" * n], ub + ["z" + "u" * (n - 1)] + ["z" * n]]
        for _ in range(40 if tier == "quick" else 600):
            seqs.append([rr.choice(allw) for _ in range(3 + rr.below(2 ** n + 3))])
    for sq in seqs:
        ks = [tkey(w) for w in sq]
        pairs = b"".join(k + b"K" + bytes([i + 1]) for i, k in enumerate(ks))
        nt_progs += [b"(" + pairs + b"d.", b"}(" + pairs + b"u.", b"}" + b"".join(k + b"K" + bytes([i + 1]) + b"s" for i, k in enumerate(ks)) + b".",
                     b"}q\x00(" + pairs + b"uh\x00."]
    # keys neither language can hash (list, dict, bytearray - bare and inside Tuple / Call / Ref at any depth) in every
    # dict-building opcode, first or after a good pair, and in a dict nested as a value: an error in both dict modes,
    # never a panic and never a dropped entry; the reference is the decoder model (C17's theorems)
    import props_dict
    for name, key in props_dict.unhashable_key_programs():
        nt_progs += [b"(" + key + b"Nd.", b"}" + key + b"Ns.", b"}(K\x05N" + key + b"Nu.", b"}K\x01}" + key + b"K\x02ss.", b"(K\x01(" + key + b"Ndd."]
    nt_lines = ["dec %s %s 0 %s" % (pd, su, p.hex()) for p in nt_progs for pd, su in CONFIGS]
    nt_impl = C.implrun(nt_lines)
    nt_model = C.modelrun(nt_lines)
    for l, io_, mo in zip(nt_lines, nt_impl, nt_model):
        if strip_model(mo) != io_:
            res.violation("dict-building program (keys of equal content in different kinds / unhashable keys): Decode gives %s, the reference dictionary (decoder + Dict model) %s" % (io_[:120], strip_model(mo)[:120]),
                          {"kind": "impl", "case": l, "observed": io_[:400], "model": mo[:400], "cmd": "echo '%s' | harness/go/implrun" % l})
    res.coverage.update({
        "non_transitive_key_programs": len(nt_lines),
        "evaluations": len(lines) + len(nt_lines), "distinct_nontrivial": stats["compared"] + stats["map_key_errors"],
        "rule": "dict-building programs: DICT / EMPTY_DICT+SETITEM / SETITEMS / mixed and reached again through the memo, keys from a colliding alphabet (1, 1.0, True, 1L via LONG and LONG1, I1, I01, 'a' as unicode / py2 str / bytes in every opcode form, tuples of these, 0/-0/False, NaN, 2^31, 2^63 as long and float, Refs, classes), nested dicts as values, x 4 configs; PyDict mode: same entry count, same key classes (documented equality), same final value per class as the dict CPython builds; default mode: entries per Go key identity (computed from CPython's assignment trace), error iff a key cannot be a Go map key; non-trivial = compared cases + documented-error cases",
        "programs": len(progs), "disagreements_checked": len(lines), **stats})
    res.samples = [{"program_hex": progs[i].hex()[:120], "impl": impl[4 * i + 2][:160]} for i in range(0, len(progs), max(1, len(progs) // 6))]

# =============================================================================================
# C02 — decoder yields the documented Go value for every CPython-produced pickle
# =============================================================================================
class ObjGen:
    def __init__(self, rng):
        self.r = rng
        self.pool = []      # objects available for sharing (DAG)
    def text(self):
        r = self.r
        n = r.choice([0, 1, 2, 3, 5, 9, 255, 256]) if r.below(10) == 0 else r.below(8)
        return "".join(r.choice("abéĀ �\U0001F600'\"\\\n\r\x00\x1a\x7f \t") for _ in range(n))
    def payload(self):
        r = self.r
        n = r.choice([0, 1, 255, 256, 257]) if r.below(10) == 0 else r.below(10)
        return bytes(r.below(256) if r.below(2) else r.choice(b"ab'\"\\\n") for _ in range(n))
    def integer(self):
        r = self.r
        k = r.below(8)
        if k == 0: return r.choice([0, 1, -1, 255, 256, 65535, 65536, 2**31 - 1, 2**31, -2**31, -2**31 - 1, 2**32, 2**63 - 1, 2**63, -2**63, -2**63 - 1, 2**64])
        if k == 1: return r.next() - 2**63
        if k == 2:     # every LONG1 length incl. >= 128 bytes
            nb = r.below(255) + 1
            return r.choice([1, -1]) * ((1 << (8 * nb - 2)) + r.below(1000))
        return r.below(100000) - 50000
    def scalar(self, hashable=False):
        r = self.r
        k = r.below(8 if hashable else 10)
        if k == 9:      # other builtins pickled through REDUCE stay symbolic Calls: complex, range, slice
            # (set / frozenset use EMPTY_SET / ADDITEMS / FROZENSET from protocol 4, which og-rek documents as unsupported)
            return r.choice([complex(r.below(9) - 4, r.below(5) / 2), complex(0.0, -0.0), range(r.below(5)), slice(1, r.below(9), None),
                             complex(1e308, 5e-324)])
        if k == 0: return None
        if k == 1: return bool(r.below(2))
        if k in (2, 3): return self.integer()
        if k == 4:
            f = struct.unpack(">d", struct.pack(">Q", r.next()))[0] if r.below(3) == 0 else (r.below(2000001) - 1000000) / r.choice([1, 3, 7, 1000])
            if f != f and hashable: f = 0.5
            return r.choice([f, float("inf"), -0.0, 1e308, 5e-324]) if r.below(6) == 0 else f
        if k in (5, 6): return self.text()
        if k == 7: return self.payload()
        return bytearray(self.payload())
    def key(self):
        r = self.r
        if r.below(5) == 0:
            return tuple(self.scalar(True) for _ in range(r.below(3)))
        return self.scalar(True)
    def obj(self, depth=0):
        r = self.r
        if self.pool and r.below(6) == 0:
            return r.choice(self.pool)           # shared sub-object: emitted once, then fetched from the memo
        if depth >= 4 or r.below(3) == 0:
            o = self.scalar()
        else:
            k = r.below(3)
            if k == 0: o = [self.obj(depth + 1) for _ in range(r.choice([0, 1, 2, 3, 5]))]
            elif k == 1: o = tuple(self.obj(depth + 1) for _ in range(r.choice([0, 1, 2, 3, 4])))
            else:
                o = {}
                for _ in range(r.choice([0, 1, 2, 3, 5])):
                    o[self.key()] = self.obj(depth + 1)
        if r.below(3) == 0 and not isinstance(o, (bool, type(None))):
            self.pool.append(o)
        return o

PY2_SCRIPT = r"""
import cPickle, pickle, sys
objs = [bytearray(b'abc'), bytearray(b''), bytearray(b'\\xff\\x00\\xe9caf'), [bytearray(b'x'), 'py2', u'uni'], {'k': bytearray(b'v'), u'u': 'b'},
        ('a', u'a', 1, 2L, 2**70, -2**63, 1.5, None, True), 'plain', '', 'caf\\xe9', '\\xff', u'\\xe9', u'\\u2028x', [1L, [2L, ['s']]],
        {1: 'one', 1L << 40: u'big', (1, 'a'): [u'x']}, [[], (), {}], ['s' * 300, u'u' * 300, bytearray(b'z' * 300)]]
for o in objs:
    for proto in (0, 1, 2):
        for dumper in (cPickle.dumps, pickle.dumps):
            sys.stdout.write(dumper(o, proto).encode('hex') + '\\n')
"""

def py2_pickles():
    import subprocess
    from props_enc import PY2
    if not os.path.exists(PY2):
        return []
    p = subprocess.run([PY2, "-c", PY2_SCRIPT.replace("\\\\", "\\")], capture_output=True, timeout=120)
    out = []
    for l in p.stdout.decode().split():
        try: out.append(bytes.fromhex(l))
        except ValueError: pass
    return sorted(set(out))

@check("C02")
def c02(res, rng, tier):
    q = tier == "quick"
    progs, origin = list(kept_corpus("C02")), {}
    hist = {}
    nobj = 700 if q else 12000
    bad_ref = 0
    for i in range(nobj):
        g = ObjGen(rng.fork("o%d" % i))
        o = g.obj()
        for proto in range(0, 6):
            for how in ("C", "py", "opt"):
                try:
                    if how == "C": p = pickle.dumps(o, proto)
                    elif how == "py": p = pickle._dumps(o, proto)
                    else: p = pickletools.optimize(pickle.dumps(o, proto))
                except Exception:
                    continue
                if p in origin: continue
                # the pickle must be one CPython itself reads back to the same object
                try:
                    back = pickle.loads(p)
                    if not (back == o or repr(back) == repr(o)):
                        bad_ref += 1; continue
                except Exception:
                    bad_ref += 1; continue
                origin[p] = (proto, how)
                progs.append(p)
                hist["%s/p%d" % (how, proto)] = hist.get("%s/p%d" % (how, proto), 0) + 1
    # gate: every LONG1 length, text lines > 4096, 8-byte lengths
    for nb in list(range(0, 256, 5)) + [127, 128, 129, 255]:
        n = (1 << (8 * nb - 2)) if nb else 0
        for pr in (2, 4):
            progs.append(pickle.dumps(n, pr)); progs.append(pickle.dumps(-n, pr))
    progs += [pickle.dumps("x" * 5000, 0), pickle.dumps(b"y" * 70000, 4), pickle.dumps(bytearray(b"z" * 300), 5),
              pickle.dumps(["é" * 300] * 3, 0), pickle._dumps({(1, "a"): [1.5, None]}, 0)]
    # the picklers write list items / dict entries in batches of 1000 (APPENDS / SETITEMS onto a
    # container that is no longer empty): sizes straddling one and two batches, by every pickler
    batch = []
    for n in (999, 1000, 1001, 1002, 2001, 2500):
        batch.append((list(range(n)), range(0, 6), (pickle.dumps, pickle._dumps)))
    batch.append(([list(range(1003)), "tail", list(range(1001))], range(0, 6), (pickle.dumps, pickle._dumps)))
    # dicts: the Dict model scans with exact arithmetic (quadratic), so fewer of them
    for n in ((1001,) if q else (1000, 1001, 2001)):
        batch.append(({i: str(i) for i in range(n)}, (0, 2, 4), (pickle.dumps,)))
        batch.append(({i: None for i in range(n)}, (2,), (pickle._dumps,)))
    # more than 256 / 65536 memoised objects with later references to late ones (LONG_BINGET / LONG_BINPUT / the
    # decimal forms of GET / PUT with 3..5 digits): the memo index in every width and byte order
    many = [(str(i), (i, str(i))) for i in range(300)]   # tuples: shared lists would hit the known finding stale_list_view
    batch.append(([many, many[250:], [m[1] for m in many[::7]]], range(0, 6), (pickle.dumps, pickle._dumps)))
    batch.append(([(float(i),) for i in range(700)] * 2, (1, 3, 4), (pickle.dumps,)))
    # (65536+ entries would exercise the third index byte, but the decoder model's memo is an association list:
    #  quadratic, 12 minutes for one such pickle - left to the 4-byte operands of the opcode sweep)
    for o, protos, dumpers in batch:
        for proto in protos:
            for dumper in dumpers:
                p = dumper(o, proto)
                if p not in origin:
                    origin[p] = (proto, "batch"); progs.append(p)
    # pickles written by CPython 2.7 (cPickle and pickle, protocols 0..2): Python-2 str next to unicode, long,
    # bytearray (reduced through __builtin__.bytearray with a py2-str 'latin-1'), nested containers
    py2 = py2_pickles()
    for p in py2:
        if p not in origin:
            origin[p] = (2, "py2"); progs.append(p)
    hist["py2"] = len(py2)
    stats, lines, impl = compare_with_cpython(res, "C02", progs, "CPython-produced pickle")
    res.coverage.update({
        "evaluations": len(lines), "distinct_nontrivial": stats["compared"] + stats["map_key_errors"],
        "rule": "Python objects over {None, bool, int incl. every LONG1 length / 2^31, 2^63 boundaries, float incl. random bit patterns, str over the adversarial alphabet, bytes, bytearray, list, tuple, dict with hashable (also tuple) keys}, nesting <= 4, DAG sharing of sub-objects, lists and dicts of 999..2500 items (the picklers' batches of 1000), pickled by the C pickler, the pure-Python pickler and pickletools.optimize at protocols 0..5; decoded in 4 configs; default map mode must fail exactly for dicts with tuple keys; non-trivial = structurally compared cases + documented-error cases",
        "programs": len(progs), "disagreements_checked": len(lines), "picklers": hist, "objects": nobj,
        "cpython_self_check_failures": bad_ref, **stats})
    res.samples = [{"pickle_hex": progs[i].hex()[:120], "impl": impl[4 * i][:160]} for i in range(0, len(progs), max(1, len(progs) // 6))]

# =============================================================================================
# C01 — encoder output means the documented Python value under CPython's unpickler
# =============================================================================================
KNOWN_NONUTF8 = "non_utf8_text_as_unicode"

def has_non_utf8_unicode(n, su, proto):
    """does the value contain a Go string that is emitted as unicode but is not valid UTF-8?"""
    k = n[0]
    if k == "str":
        kind, b = n[1], n[2]
        uni = kind == "y" or (kind in ("s", "ns") and (su or proto >= 3))
        return uni and not E.valid_utf8(b)
    if k == "tuple": return any(has_non_utf8_unicode(x, su, proto) for x in n[1])
    if k == "list": return any(has_non_utf8_unicode(x, su, proto) for x in n[2])
    if k == "map": return any(has_non_utf8_unicode(a, su, proto) or has_non_utf8_unicode(b, su, proto) for a, b in n[2])
    if k in ("class", "call"):
        r = proto >= 4 and any(not E.valid_utf8(x) for x in (n[1], n[2]))
        return r or (k == "call" and any(has_non_utf8_unicode(x, su, proto) for x in n[3]))
    if k == "ref": return has_non_utf8_unicode(n[1], su, proto)
    if k in ("struct", "zoo"): return any(has_non_utf8_unicode(("str", "s", nm), su, proto) or has_non_utf8_unicode(v, su, proto) for nm, v in E.struct_fields(n))
    if k == "ptr":
        return has_non_utf8_unicode(("ref", n[2]), su, proto) if (n[2] is not None and E.is_struct(n[1])) else has_non_utf8_unicode(n[1], su, proto)
    return False

@check("C01")
def c01(res, rng, tier):
    vals = enc_values(rng, tier, n_quick=1500)
    lines, meta = [], []
    for v in vals:
        t = E.tokens(v)
        for p in range(0, 6):
            for su in "01":
                if E.possible_errors(v, su == "1", p):
                    continue                # documented errors are C03 / C15 material
                lines.append("enc %d %s - %s" % (p, su, t)); meta.append((v, p, su))
    impl, model = run_enc("C01", lines)
    # theorem encode_loads (Proofs/PyFacts.v): PyVM.pyload (program c v) = PyVal.pyval_of c v.  Both
    # specifications are compared with CPython here: the real unpickler on the model's bytes must give
    # the value the CPython machine of the model computed.
    from props_enc import LAST_ENV
    spec = C.modelrun(["pyload " + l.split(" ", 4)[1] + " " + l.split(" ", 4)[2] + " " + l.split(" ", 4)[4] for l in lines], env=LAST_ENV["C01"])
    in_fragment = 0
    for i, sp in enumerate(spec):
        if sp == "NA":
            continue
        if not sp.startswith("ok "):
            res.violation("PyVM.pyload and PyVal.pyval_of disagree inside the model: %s" % sp[:300],
                          {"kind": "correspondence", "theorem": "PyFacts.encode_loads", "case": lines[i][:800], "model": sp[:800]}, found_input=False)
            continue
        cm, bm, _ = enc_obs(model[i])
        if cm != "ok":
            res.violation("pyval_of defined but the encoder model fails (%s)" % cm,
                          {"kind": "correspondence", "theorem": "PyFacts.encode_loads", "case": lines[i][:800]}, found_input=False)
            continue
        ok, obj = R.pyload(bytes.fromhex(bm), True)
        flags = {}
        try:
            same = ok and R.equiv(R.parse_go(sp[3:]), obj, True, flags=flags)
        except (R.Cyclic, RecursionError):
            continue
        if flags.get("multi"):
            continue
        in_fragment += 1
        if not same:
            res.violation("the CPython machine of the model (PyVM) loads %s, CPython itself %s" % (sp[3:200], (repr(obj) if ok else "error: %r" % (obj,))[:200]),
                          {"kind": "correspondence", "theorem": "PyFacts.encode_loads / PyVM.v", "case": lines[i][:800],
                           "pickle_hex": bm[:2000], "pyvm": sp[:800], "cpython": repr(obj)[:800]})
    nontriv, nonutf8, nonutf8_ex = 0, 0, None
    nonascii_pid, nonascii_ex = 0, None
    for i, io_ in enumerate(impl):
        v, p, su = meta[i]
        cls, hexb, attrs = enc_obs(io_)
        if cls != "ok":
            res.violation("Encode fails (%s) on a supported value" % cls, {"kind": "impl", "case": lines[i][:800], "observed": io_[:300]})
            continue
        data = bytes.fromhex(hexb)
        want_txt = E.canon_dump(E.norm(v, True, su == "1", p, su_dec=True))
        ok, obj = R.pyload(data, True)
        why = None
        if not ok:
            why = "CPython cannot load the pickle: %s: %s" % (type(obj).__name__, str(obj)[:120])
        else:
            # exactly one pickle: nothing after STOP
            try:
                last = list(pickletools.genops(data))[-1]
                if last[2] != len(data) - 1: why = "bytes after STOP"
            except Exception:
                pass
            if not why:
                try:
                    if not R.equiv(R.parse_go(want_txt), obj, True):
                        why = "CPython loads %s, the documented value is %s" % (repr(obj)[:200], want_txt[:200])
                except (R.Cyclic, RecursionError):
                    continue
        if why and p == 0 and "persistent IDs in protocol 0 must be ASCII" in why:
            nonascii_pid += 1
            nonascii_ex = nonascii_ex or (lines[i], why)
            continue
        if why:
            if has_non_utf8_unicode(v, su == "1", p):
                nonutf8 += 1
                nonutf8_ex = nonutf8_ex or (lines[i], why)
                continue
            res.violation(why, {"kind": "impl", "case": lines[i][:800], "pickle_hex": hexb[:2000], "documented_value": want_txt[:600],
                                "cmd": "echo '%s' | harness/go/implrun" % lines[i][:600]})
            continue
        cm, bm, _ = enc_obs(model[i])
        import pkl
        if cm != "ok" or (bm != hexb and pkl.canon(bytes.fromhex(bm)) != pkl.canon(data)):
            res.violation("correspondence: encoder model %s vs implementation" % cm,
                          {"kind": "correspondence", "case": lines[i][:600], "model": model[i][:400], "impl": io_[:400]}, found_input=False)
        nontriv += 1
    if nonutf8:
        if known("C01", KNOWN_NONUTF8):
            res.known.append("%s: a Go string that is not valid UTF-8 is written as BINUNICODE / SHORT_BINUNICODE (StrictUnicode on or protocol >= 3) and CPython rejects it; %d cases in this run, e.g. %s -> %s"
                             % (KNOWN_NONUTF8, nonutf8, nonutf8_ex[0][:80], nonutf8_ex[1][:100]))
        else:
            res.violation("a Go string that is not valid UTF-8 is emitted as unicode and CPython cannot load it: " + nonutf8_ex[1][:160],
                          {"kind": "impl", "case": nonutf8_ex[0][:800]})
    if nonascii_pid:
        if known("C01", "nonascii_persid_p0"):
            res.known.append("nonascii_persid_p0: a Ref whose id is a non-ASCII string is written at protocol 0 as P<id>; CPython 3 rejects it (persistent IDs in protocol 0 must be ASCII strings), CPython 2 loads it; %d cases, e.g. %s" % (nonascii_pid, nonascii_ex[0][:60]))
        else:
            res.violation("protocol-0 PERSID with a non-ASCII id: " + nonascii_ex[1][:160], {"kind": "impl", "case": nonascii_ex[0][:800]})
    res.coverage.update({
        "evaluations": len(lines), "distinct_nontrivial": nontriv,
        "rule": "gate matrix + random value trees of every documented Go type (ints of every width around 2^7..2^64, big ints, every float class, strings / Bytes / ByteString / []byte over the adversarial alphabet and lengths 0/1/255/256/257, lists, tuples, maps, Dicts, Calls, Refs, structs, pointers) x protocols 0..5 x StrictUnicode; each output loaded by CPython's pickle._Unpickler (symbolic classes; py2 str kept distinct from unicode) and compared structurally with the documented Python value; non-trivial = outputs loaded and found equal",
        "programs": len(lines), "disagreements_checked": len(lines), "value_kinds": kinds_hist(vals), "non_utf8_unicode_cases": nonutf8,
        "cases_inside_theorem_fragment_compared_with_cpython": in_fragment})
    res.samples = [{"case": lines[i][:160], "impl": impl[i][:120]} for i in range(0, len(lines), max(1, len(lines) // 6))]
