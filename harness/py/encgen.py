"""Generator of Go values handed to Encode (as trees), their token rendering for implrun /
modelrun, their documented decode normal form, and the documented Python value."""
import struct
from common import Rng
import genprog as G

def hx(b): return b.hex()
def fbits(x): return "%016x" % struct.unpack(">Q", struct.pack(">d", x))[0]

INT_W = {"i8": (-2**7, 2**7 - 1), "i16": (-2**15, 2**15 - 1), "i32": (-2**31, 2**31 - 1),
         "i": (-2**63, 2**63 - 1), "i0": (-2**63, 2**63 - 1)}
UINT_W = {"u8": (0, 2**8 - 1), "u16": (0, 2**16 - 1), "u32": (0, 2**32 - 1),
          "u": (0, 2**64 - 1), "u0": (0, 2**64 - 1)}

# ---- rendering ---------------------------------------------------------------------------------
def tokens(n):
    k = n[0]
    if k == "nil": return "NIL"
    if k == "none": return "N"
    if k == "bool": return "T" if n[1] else "F"
    if k in ("int", "uint"): return "%s:%d" % (n[1], n[2])
    if k == "big": return ("Lv:%d" if n[2] else "L:%d") % n[1]
    if k == "float": return ("f32:%08x" % n[1]) if n[2] else ("f:%016x" % n[1])
    if k == "unsup": return n[1]
    if k == "str": return "%s:%s" % (n[1], hx(n[2]))
    if k == "bytes": return "%s:%s" % (n[1], hx(n[2]))
    if k == "tuple": return "t( " + " ".join(tokens(x) for x in n[1]) + " )" if n[1] else "t( )"
    if k == "list": return n[1] + "[ " + "".join(tokens(x) + " " for x in n[2]) + "]"
    if k == "map": return n[1] + "{ " + "".join(tokens(a) + " " + tokens(b) + " " for a, b in n[2]) + "}"
    if k == "class": return "g:%s:%s" % (hx(n[1]), hx(n[2]))
    if k == "call": return "C( g:%s:%s %s )" % (hx(n[1]), hx(n[2]), tokens(("tuple", n[3])))
    if k == "ref": return "R( " + tokens(n[1]) + " )"
    if k == "struct":
        return "st{ " + "".join("F %s %s %s " % (hx(nm) or "-", hx(tag) or "-", tokens(v)) for nm, tag, v in n[1]) + "}"
    if k == "zoo": return "zoo:%s ( %s )" % (n[1], " ".join(tokens(a) for a in n[2]))
    if k == "ptr":
        if n[2] is None: return "p&( " + tokens(n[1]) + " )"
        return "P&( " + tokens(n[2]) + " " + tokens(n[1]) + " )"
    if k == "nilp": return "nilp:" + n[1]
    raise AssertionError(n)

# ---- documented decode normal form (as the canonical dump text, entries unsorted) ----------------
class Unencodable(Exception):
    pass

def f32_to_f64_bits(b):
    return struct.unpack(">Q", struct.pack(">d", struct.unpack(">f", struct.pack(">I", b))[0]))[0]

ZOO_FIELDS = {   # name -> list of (field name, exported, tag, how to get node from args)
    "A": [("a", False, "a", 0), ("B", True, "b", 1)],
    "B": [("X", True, "", 0), ("y", False, "", 1), ("Z", True, "", 2)],
    "G": [("A", True, "k", 0), ("B", True, "k", 1), ("C", True, "", 2)],
    # two different types named main.local
    "L1": [("x", False, "a", 0), ("Y", True, "b", 1)],
    "L2": [("P", True, "", 0), ("Q", True, "", 1), ("R", True, "", 2), ("Y", True, "b", 3), ("x", False, "a", 4)],
}

def struct_fields(n):
    """(name to emit, value node) list as the encoder emits them (order arbitrary for tags)"""
    if n[0] == "struct":
        fs = [(nm, True, tag, v) for nm, tag, v in n[1]]
    else:
        name, args = n[1], n[2]
        if name in ZOO_FIELDS:
            fs = [(fn.encode(), ex, tg.encode(), args[i]) for fn, ex, tg, i in ZOO_FIELDS[name]]
        elif name == "C":
            fs = [(b"zooB", False, b"", ("zoo", "B", args[:3])), (b"W", True, b"", args[3])]
        elif name == "E":
            fs = [(b"ZooD", True, b"", ("struct", [(b"V", b"", args[0])])), (b"U", True, b"", args[1])]
        elif name == "F":
            a = args[0] if args[0][0] != "nil" else ("list", "l", [])
            c = args[2] if args[2][0] != "nil" else ("map", "m", [])
            f = args[5] if args[5][0] != "nil" else ("tuple", [])
            g = (args[6][2] + b"\x00\x00")[:2]
            fs = [(b"a", False, b"a", a), (b"b", False, b"b", ("ptr", ("struct", [(b"V", b"", args[1])]), None)),
                  (b"c", False, b"c", c), (b"d", False, b"d", ("struct", [(b"V", b"", args[3])])),
                  (b"e", False, b"e", args[4]), (b"f", False, b"f", f), (b"g", False, b"g", ("bytes", "A", g))]
        elif name == "H":
            fs = [(b"a", False, b"a", args[0]), (b"b", False, b"b", args[1]), (b"c", False, b"c", args[2]),
                  (b"d", False, b"d", args[3]), (b"e", False, b"e", ("str", "ns", args[4][2]))]
        else:
            raise AssertionError(name)
    if any(tag for _, _, tag, _ in fs):
        last = {}
        for nm, ex, tag, v in fs:
            if tag:
                last[tag] = v
        return list(last.items())
    return [(nm, v) for nm, ex, tag, v in fs if ex]

def norm(n, pd, su, proto, su_dec=None):
    """dump text of Decode(Encode(n)) per the documented table; raises Unencodable for the
    documented errors (unsupported kinds, protocol limitations).  su = encoder's StrictUnicode;
    su_dec = decoder's (default: the same)"""
    if su_dec is None: su_dec = su
    k = n[0]
    if k in ("nil", "none", "nilp"): return "N"
    if k == "bool": return "T" if n[1] else "F"
    if k == "int": return "i:%d" % n[2]
    if k == "uint": return ("i:%d" % n[2]) if n[2] <= 2**63 - 1 else ("L:%x" % n[2])
    if k == "big": return "L:%s%x" % ("-" if n[1] < 0 else "", abs(n[1]))
    if k == "float": return "f:%016x" % (f32_to_f64_bits(n[1]) if n[2] else n[1])
    if k == "unsup": raise Unencodable("type")
    if k == "str":
        kind, b = n[1], n[2]
        if kind in ("s", "ns"):
            as_unicode = su_enc(su) or proto >= 3
            if as_unicode and proto == 0 and not valid_utf8(b): raise Unencodable("p0unicode")
            if as_unicode: return "s:" + hx(b)
            return ("z:" if su_dec else "s:") + hx(b)
        if kind == "y":
            if proto == 0 and not valid_utf8(b): raise Unencodable("p0unicode")
            return "s:" + hx(b)
        if kind == "b": return "b:" + hx(b)
        if kind == "z": return ("z:" if su_dec else "s:") + hx(b)
    if k == "bytes": return "a:" + hx(n[2])
    if k == "tuple": return "t(" + "".join(" " + norm(x, pd, su, proto, su_dec) for x in n[1]) + " )"
    if k == "list": return "l[" + "".join(" " + norm(x, pd, su, proto, su_dec) for x in n[2]) + " ]"
    if k == "map":
        if not pd and any(go_unhashable_key(a) for a, b in n[2]):
            raise Unencodable("mapkey")      # documented: default map mode cannot hold such keys
        return ("d{" if pd else "m{") + "".join(" " + norm(a, pd, su, proto, su_dec) + " " + norm(b, pd, su, proto, su_dec) for a, b in n[2]) + " }"
    if k == "class":
        if proto <= 3 and (b"\n" in n[1] or b"\n" in n[2]): raise Unencodable("p0123global")
        if proto >= 4 and proto == 0: pass
        return "g:%s:%s" % (hx(n[1]), hx(n[2]))
    if k == "call":
        if proto <= 3 and (b"\n" in n[1] or b"\n" in n[2]): raise Unencodable("p0123global")
        return "C( g:%s:%s t(%s ) )" % (hx(n[1]), hx(n[2]), "".join(" " + norm(x, pd, su, proto, su_dec) for x in n[3]))
    if k == "ref":
        if proto == 0:
            p = n[1]
            if not (p[0] == "str" and p[1] == "s" and b"\n" not in p[2]): raise Unencodable("p0persid")
            return "R( s:%s )" % hx(p[2])
        return "R( " + norm(n[1], pd, su, proto, su_dec) + " )"
    if k in ("struct", "zoo"):
        items = []
        for nm, v in struct_fields(n):
            items.append(" " + norm(("str", "s", nm), pd, su, proto, su_dec) + " " + norm(v, pd, su, proto, su_dec))
        return ("d{" if pd else "m{") + "".join(items) + " }"
    if k == "ptr":
        if n[2] is not None and is_struct(n[1]):
            return norm(("ref", n[2]), pd, su, proto, su_dec)
        return norm(n[1], pd, su, proto, su_dec)
    raise AssertionError(n)

def su_enc(su): return su

def go_unhashable_key(k):
    if k[0] in ("tuple", "list", "bytes", "map", "call"): return True
    if k[0] == "ref": return go_unhashable_key(k[1])
    if k[0] == "ptr": return False
    return False

def is_struct(n):
    if n[0] == "big": return n[2]          # big.Int by value is a struct; *big.Int is a pointer
    return n[0] in ("none", "class", "call", "ref", "struct", "zoo") or (n[0] == "map" and n[1] == "d")

def valid_utf8(b):
    """Go's notion (utf8.DecodeRune never yields RuneError of width 1): surrogates and
    overlongs are invalid, U+FFFD itself is valid"""
    try:
        b.decode("utf-8")
        return True
    except UnicodeDecodeError:
        return False

# ---- canonical form of a dump text: map entries sorted ---------------------------------------------
def parse_tree(toks, i=0):
    t = toks[i]
    if t in ("l[", "t(", "m{", "d{"):
        close = {"l[": "]", "t(": ")", "m{": "}", "d{": "}"}[t]
        items = []
        i += 1
        while toks[i] != close:
            x, i = parse_tree(toks, i)
            items.append(x)
        return (t, items), i + 1
    if t == "C(":
        g, i = parse_tree(toks, i + 1)
        a, i = parse_tree(toks, i)
        return ("C(", [g, a]), i + 1
    if t == "R(":
        p, i = parse_tree(toks, i + 1)
        return ("R(", [p]), i + 1
    return t, i + 1

def render_sorted(tree):
    if isinstance(tree, str):
        return tree
    t, items = tree
    if t in ("m{", "d{"):
        pairs = sorted(render_sorted(items[j]) + " " + render_sorted(items[j + 1]) for j in range(0, len(items) - 1, 2))
        return t + "".join(" " + p for p in pairs) + " }"
    r = [render_sorted(x) for x in items]
    if t == "l[": return "l[" + "".join(" " + x for x in r) + " ]"
    if t == "t(": return "t(" + "".join(" " + x for x in r) + " )"
    if t == "C(": return "C( " + r[0] + " " + r[1] + " )"
    if t == "R(": return "R( " + r[0] + " )"
    raise AssertionError(t)

def canon_dump(text):
    tree, _ = parse_tree(text.split())
    return render_sorted(tree)

# ---- generation ------------------------------------------------------------------------------------
SIZES = [0, 1, 255, 256, 257]
INT_BOUNDS = sorted(set(s * (2**k) + d for k in (0, 7, 8, 15, 16, 31, 32, 63, 64) for d in (-1, 0, 1) for s in (1, -1)))

class ValGen:
    def __init__(self, rng, canonical_only=False, max_depth=4, hashable_floats=True):
        self.r = rng
        self.canon = canonical_only
        self.max_depth = max_depth

    def payload(self, n=None):
        r = self.r
        if n is None:
            n = r.choice([0, 1, 2, 3, 5, 9, 17])
        if r.below(3) == 0:
            return b"".join(r.choice(G.ALPHABET) for _ in range(n))[:max(n, 0) * 4]
        return bytes(r.choice(b"abcxyz019 _") for _ in range(n))

    def text(self, n=None):
        """valid UTF-8"""
        r = self.r
        if n is None:
            n = r.choice([0, 1, 2, 3, 5, 9])
        chars = "abéĀ �\U0001F600'\"\\\n\r\x00\x1a\x7f \t%{$\x07\x08\x0b\x0c\x1b"       # % { $: text that looks like a format / template directive
        return "".join(r.choice(chars) for _ in range(n)).encode("utf-8")

    def some_int(self):
        r = self.r
        k = r.below(8)
        if k == 0: return r.choice(INT_BOUNDS)
        if k == 1: return r.next() - 2**63
        if k == 2: return r.below(2**32) - 2**31
        if k == 3: return r.choice([1, -1]) * (2**r.below(200)) + r.below(3) - 1
        return r.below(600) - 300

    def int_node(self, z=None):
        r = self.r
        if z is None: z = self.some_int()
        opts = []
        if not self.canon:
            opts += [("int", w, z) for w, (lo, hi) in INT_W.items() if lo <= z <= hi]
            opts += [("uint", w, z) for w, (lo, hi) in UINT_W.items() if lo <= z <= hi]
            opts.append(("big", z, True))
        elif -2**63 <= z <= 2**63 - 1:
            opts.append(("int", "i", z))
        opts.append(("big", z, False))
        return r.choice(opts)

    def float_node(self):
        r = self.r
        k = r.below(5)
        if k == 0: bits = r.next()
        elif k == 1: bits = r.choice([0, 1 << 63, 0x7ff0000000000000, 0xfff0000000000000, 0x7ff8000000000001, 1,
                                      0x000fffffffffffff, 0x0010000000000000, 0x7fefffffffffffff, 0x3ff0000000000000,
                                      0x4340000000000000, 0x43e0000000000000, 0x7ff8000000000000, 0xfff8000000000000])
        else:
            bits = struct.unpack(">Q", struct.pack(">d", (r.below(2000001) - 1000000) / r.choice([1, 2, 3, 7, 10, 1000])))[0]
        if not self.canon and r.below(4) == 0:
            return ("float", r.below(2**32), True)
        return ("float", bits, False)

    def str_node(self):
        r = self.r
        kinds = ["s", "z", "b"] if self.canon else ["s", "s", "z", "b", "y", "ns"]
        k = r.choice(kinds)
        p = self.text() if (k in ("s", "y", "ns") and r.below(5)) else self.payload()
        return ("str", k, p)

    def key_node(self, depth):
        """a value Go can use as a builtin map key and Python can hash"""
        k = self._key_node(depth)
        if k[0] == "big" and k[2]:
            k = ("big", k[1], False)        # big.Int by value holds a slice: not a map key
        if k[0] == "str" and k[1] in ("y", "ns"):
            k = ("str", "s", k[2])          # Dict hashes only string / ByteString / Bytes
        return k

    def _key_node(self, depth):
        r = self.r
        k = r.below(8)
        if k <= 1: return self.int_node()
        if k == 2: return self.str_node()
        if k == 3: return self.float_node()
        if k == 4: return ("bool", bool(r.below(2)))
        if k == 5: return ("none",)
        if k == 6: return ("class", b"m", b"C%d" % r.below(3))
        return self.str_node()

    def node(self, depth=0):
        r = self.r
        leaf = depth >= self.max_depth
        k = r.below(20 if not leaf else 8)
        if k == 0: return ("none",) if self.canon or r.below(2) else ("nil",)
        if k == 1: return ("bool", bool(r.below(2)))
        if k == 2: return self.int_node()
        if k == 3: return self.float_node()
        if k in (4, 5): return self.str_node()
        if k == 6: return ("bytes", "a" if self.canon else r.choice(["a", "a", "A", "na", "nb"]), self.payload())
        if k == 7:
            odd = [b"100%", b"%d", b"a%sb", b"%%", b"%!v", b"m x", "\u00e9".encode(), b"a'b", b'a"b', b"a\\b", b"{0}", b"$x", b"a.b.c", b"", b"\t"]
            return ("class", r.choice([b"decimal", b"foo.bar", b"m\nx"]) if r.below(20) == 0 else r.choice([b"decimal", b"foo.bar"] + (odd if r.below(3) == 0 else [])),
                    r.choice([b"Decimal", b"C"] + (odd if r.below(3) == 0 else [])))
        if k in (8, 9):
            return ("tuple", [self.node(depth + 1) for _ in range(r.choice([0, 1, 2, 3, 4]))])
        if k in (10, 11):
            kind = "l" if self.canon else r.choice(["l", "l", "ar", "ts"])
            n = r.choice([0, 1, 2, 3, 5])
            if kind == "ts":
                proto = r.choice(["int", "str", "float", "bool"])
                items = [{"int": lambda: ("int", "i32", r.below(1000) - 500), "str": lambda: ("str", "s", self.text()),
                          "float": self.float_node_64, "bool": lambda: ("bool", bool(r.below(2)))}[proto]() for _ in range(n)]
                return ("list", "ts", items)
            return ("list", kind, [self.node(depth + 1) for _ in range(n)])
        if k in (12, 13):
            kind = r.choice(["m", "d"]) if self.canon else r.choice(["m", "d", "tm"])
            n = r.choice([0, 1, 2, 3, 6])
            pairs, seen = [], set()
            for _ in range(n):
                if kind == "tm":
                    key = ("str", "s", self.text(3))
                    val = ("int", "i16", r.below(100))
                else:
                    key = self.key_node(depth + 1)
                    if kind == "d" and r.below(4) == 0:
                        key = ("tuple", [self.key_node(depth + 2) for _ in range(r.below(3))])
                    val = self.node(depth + 1)
                ident = key_identity(key)
                if ident in seen: continue       # keep keys distinct under Python equality: no merging
                seen.add(ident)
                pairs.append((key, val))
            return ("map", kind, pairs)
        if k == 14:
            return ("call", b"decimal", b"Decimal", [self.node(depth + 1) for _ in range(r.choice([0, 1, 2]))])
        if k == 15:
            pid = self.str_node() if r.below(2) else self.node(depth + 1)
            if r.below(3) == 0: pid = ("str", "s", bytes(r.choice(b"abc 019%{$'\\") for _ in range(r.below(6))))
            return ("ref", pid)
        if self.canon:
            return self.int_node()
        if k == 16:
            fs, names = [], set()
            for i in range(r.choice([0, 1, 2, 3])):
                nm = bytes([r.choice(b"ABCDEFG")]) + bytes(r.choice(b"abc") for _ in range(r.below(3)))
                if nm in names: continue
                names.add(nm)
                # tags in the option syntax of other encoders are plain names here; zero values are written like any other
                tag = r.choice([b"", b"", b"t1", b"t2", b"t1,omitempty", b",omitempty", b"-", b"t2,string", b"x,"]) if r.below(3) == 0 else b""
                val = r.choice([("int", "i", 0), ("str", "s", b""), ("nil",), ("bool", False), ("tuple", []), ("list", "l", [])]) if r.below(4) == 0 else self.node(depth + 1)
                fs.append((nm, tag, val))
            return ("struct", fs)
        if k == 17:
            z = r.choice(["A", "B", "C", "E", "G", "L1", "L2"])
            iv = lambda: ("int", "i", r.below(100) - 50)
            sv = lambda: ("str", "s", self.text(3))
            args = {"A": lambda: [sv(), iv()], "B": lambda: [iv(), iv(), sv()], "C": lambda: [iv(), iv(), sv(), iv()],
                    "E": lambda: [iv(), iv()], "G": lambda: [iv(), iv(), iv()],
                    "L1": lambda: [iv(), sv()], "L2": lambda: [iv(), iv(), iv(), sv(), iv()]}[z]()
            return ("zoo", z, args)
        if k == 18:
            inner = self.node(depth + 1)
            if inner[0] in ("nil", "unsup"): inner = ("none",)
            ref = None
            zero_size = inner[0] == "none" or (inner[0] == "struct" and not inner[1])
            # (Go gives every zero-size object the same address: a PersistentRef table keyed by
            #  pointer cannot tell them apart, so only sized pointees get a reference)
            if is_struct(inner) and not zero_size and r.below(3) == 0:
                ref = ("str", "s", b"oid%d" % r.below(9)) if r.below(2) else ("tuple", [("int", "i", r.below(9)), ("none",)])
            return ("ptr", inner, ref)
        return r.choice([("nilp", "struct"), ("nilp", "int"), ("nilp", "none"), ("nilp", "big"), ("nilp", "call"), ("nilp", "ptrptr"),
                         ("unsup", "chan"), ("unsup", "func"), ("unsup", "uptr"), ("unsup", "unsafeptr"),
                         ("unsup", "x:3ff0000000000000,0000000000000000"), ("unsup", "x32:3f800000,00000000")])

    def float_node_64(self):
        n = self.float_node()
        return n if not n[2] else ("float", 0x3ff8000000000000, False)

def key_identity(k):
    """keys that Python (and the Dict) would merge get the same identity"""
    t = k[0]
    if t in ("int", "uint"): return ("num", k[2])
    if t == "big": return ("num", k[1])
    if t == "bool": return ("num", int(k[1]))
    if t == "float":
        bits = f32_to_f64_bits(k[1]) if k[2] else k[1]
        f = struct.unpack(">d", struct.pack(">Q", bits))[0]
        if f != f: return ("nan", id(k))
        if f == int(f) if abs(f) != float("inf") else False: return ("num", int(f))
        return ("f", f)
    if t == "str": return ("s", k[2])          # str / bytes / py2 str of equal content: keep apart entirely
    if t == "tuple": return ("t",) + tuple(key_identity(x) for x in k[1])
    if t == "none": return ("none",)
    if t == "class": return ("g", k[1], k[2])
    return ("other", tokens(k))

def gate_matrix():
    """deterministic: every documented type x size classes x integer boundaries (protocols and
    StrictUnicode are applied by the caller)"""
    out = [("nil",), ("none",), ("bool", True), ("bool", False)]
    for z in INT_BOUNDS:
        for w, (lo, hi) in list(INT_W.items()) + list(UINT_W.items()):
            if lo <= z <= hi:
                out.append(("int" if w.startswith("i") else "uint", w, z))
        out.append(("big", z, False)); out.append(("big", z, True))
    # big.Int around the one-byte length of LONG1 (255 / 256 payload bytes) and a few well beyond
    for nb in (2031, 2032, 2033, 2039, 2040, 2041, 2047, 2048, 2049, 4096):
        for z in ((1 << nb) - 1, 1 << nb, -(1 << nb), -(1 << nb) - 1, -(1 << nb) + 1):
            out.append(("big", z, False))
    for bits in (0, 1 << 63, 0x7ff0000000000000, 0xfff0000000000000, 0x7ff8000000000001, 1, 0x3ff0000000000000,
                 0x3fb999999999999a, 0x7fefffffffffffff, 0x0010000000000000, 0x4059000000000000, 0x412e848000000000,
                 0x4415af1d78b58c40, 0x3f1a36e2eb1c432d, 0x3ee4f8b588e368f1):
        out.append(("float", bits, False))
    for b32 in (0, 0x3f800000, 0x7f800000, 0x7fc00000, 0x3dcccccd, 1):
        out.append(("float", b32, True))
    for n in SIZES:
        for kind in ("s", "ns", "y", "b", "z"):
            out.append(("str", kind, b"a" * n))
        for kind in ("a", "A", "na", "nb"):
            out.append(("bytes", kind, b"\x01" * n))
    # multi-byte text around the one-byte length boundary: fewer than 256 runes but 256 bytes or more,
    # and the reverse is impossible; 2-, 3- and 4-byte runes, byte lengths 254..258 and rune counts 255/256
    for ch in ("é", "Ā", " ", "\U0001F600"):
        w = len(ch.encode())
        for nbytes in (254, 255, 256, 257, 258, 300):
            k, pad = divmod(nbytes, w)
            for kind in ("s", "y", "z", "ns"):
                out.append(("str", kind, (ch * k).encode() + b"a" * pad))
        for nrunes in (255, 256):
            for kind in ("s", "y"):
                out.append(("str", kind, (ch * nrunes).encode()))
    for kind in ("class",):
        out.append(("class", ("é" * 130).encode(), b"C")); out.append(("class", b"m", ("Ā" * 128).encode()))
    adv = b"".join(G.ALPHABET)
    for kind in ("s", "y", "b", "z"):
        out.append(("str", kind, adv))
        for ch in G.ALPHABET:
            out.append(("str", kind, ch))
    for kind in ("a", "A"):
        out.append(("bytes", kind, adv))
    one = ("int", "i", 1)
    for n in (0, 1, 2, 3, 4):
        out.append(("tuple", [one] * n))
        out.append(("list", "l", [one] * n)); out.append(("list", "ar", [one] * n)); out.append(("list", "ts", [("int", "i8", 1)] * n))
        pairs = [(("int", "i", j), ("str", "s", b"v%d" % j)) for j in range(n)]
        out.append(("map", "m", pairs)); out.append(("map", "d", pairs))
        out.append(("map", "tm", [(("str", "s", b"k%d" % j), ("int", "i16", j)) for j in range(n)]))
        out.append(("call", b"decimal", b"Decimal", [("str", "s", b"3.14")] * n))
    # every control character and every Latin-1 code point on its own, in each string kind (the escape tables of the
    # protocol-0 text forms are per character)
    for cp in list(range(0, 33)) + [34, 39, 92, 127] + list(range(128, 256, 5)) + [0x85, 0xa0, 0xad, 0xff, 0x100, 0x2028, 0xffff, 0x10000]:
        u = chr(cp).encode("utf-8")
        out += [("str", "s", u), ("str", "z", u)]
        if cp < 256:
            out += [("str", "b", bytes([cp])), ("str", "z", bytes([cp]))]
    # lengths around the powers of two (fixed-size scratch buffers) in every string kind
    for n in (7, 8, 9, 15, 16, 17, 31, 32, 33, 62, 63, 64, 65, 66, 127, 128, 129, 254, 255, 256, 257, 511, 512, 513, 1023, 1024, 1025):
        body = bytes(97 + (i * 7 + n) % 26 for i in range(n))
        out += [("str", "s", body), ("str", "z", body), ("str", "b", body), ("bytes", "a", body), ("str", "s", ("\u00e9" * n).encode()[:n - n % 2])]
    out += [("class", b"100%", b"%d"), ("class", b"%s", b"a%vb"), ("call", b"%d", b"%s", [("int", "i", 1)]), ("ref", ("str", "s", b"id%d%s")),
            ("ref", ("str", "s", b"100%")), ("struct", [(b"A", b"t%d", ("int", "i", 1))]),
            ("class", b"decimal", b"Decimal"), ("class", b"a\nb", b"C"), ("class", b"m", b"x\ny"), ("class", b"", b""),
            ("class", "é".encode(), "Ā".encode()), ("call", b"m\n", b"C", []),
            ("ref", ("str", "s", b"abc")), ("ref", ("str", "s", b"a\nb")), ("ref", ("str", "z", b"abc")), ("ref", ("str", "ns", b"abc")),
            ("ref", ("int", "i", 5)), ("ref", ("tuple", [("str", "s", b"t"), ("int", "i", 1)])), ("ref", ("nil",)), ("ref", ("none",)),
            ("ref", ("str", "s", "é".encode())), ("ref", ("str", "s", b"\xff")),
            ("map", "m", [(("float", 0x7ff8000000000001, False), one)]), ("map", "m", [(("float", 1 << 63, False), one)]),
            ("map", "d", [(("float", 0x7ff8000000000001, False), one)]), ("map", "m", [(("big", 2**70, False), one)]),
            ("map", "d", [(("tuple", [one, ("str", "z", b"k")]), one)]), ("map", "m", [(("none",), ("nil",))]),
            ("struct", []), ("struct", [(b"A", b"", one)]), ("struct", [(b"A", b"ta", one), (b"B", b"", one)]),
            ("struct", [(b"A", b"t", one), (b"B", b"t", ("int", "i", 2))]),
            ("struct", [(b"A", b"n,omitempty", ("int", "i", 0)), (b"B", b"", one)]), ("struct", [(b"A", b"-", one), (b"B", b"-,", ("nil",))]),
            ("struct", [(b"A", b",omitempty", ("str", "s", b"")), (b"B", b"n,omitempty", ("bool", False)), (b"C", b"c,omitempty", one)]),
            ("zoo", "L1", [one, ("str", "s", b"y")]), ("zoo", "L2", [one, ("int", "i", 2), ("int", "i", 3), ("str", "s", b"y"), ("int", "i", 5)]),
            ("list", "l", [("zoo", "L2", [one, one, one, ("str", "s", b"q"), one]), ("zoo", "L1", [one, ("str", "s", b"p")])]),
            ("zoo", "A", [("str", "s", b"x"), one]), ("zoo", "B", [one, one, ("str", "s", b"z")]),
            ("zoo", "C", [one, one, ("str", "s", b"z"), one]), ("zoo", "E", [one, one]), ("zoo", "G", [one, ("int", "i", 2), ("int", "i", 3)]),
            ("zoo", "F", [("list", "l", [one]), one, ("map", "m", [(one, one)]), one, ("str", "s", b"e"), ("tuple", [one]), ("str", "s", b"gh")]),
            ("zoo", "F", [("nil",), one, ("nil",), one, ("nil",), ("nil",), ("str", "s", b"")]),
            ("zoo", "H", [("str", "b", b"by"), ("str", "z", b"bs"), ("big", 7, False), ("ref", ("str", "s", b"r")), ("str", "s", b"named")]),
            ("ptr", one, None), ("ptr", ("ptr", ("struct", [(b"A", b"", one)]), None), None), ("ptr", ("none",), None),
            ("ptr", ("struct", [(b"A", b"", one)]), ("str", "s", b"oid")), ("ptr", ("struct", [(b"B", b"", one)]), ("tuple", [one, ("none",)])),
            ("ptr", ("struct", [(b"C", b"", one)]), ("str", "s", b"o\nid")), ("ptr", ("big", 5, True), ("str", "s", b"bigref")),
            ("ptr", ("bytes", "A", b"\x01\x02"), None), ("ptr", ("map", "d", []), ("str", "s", b"dictref")),
            ("list", "l", [("bytes", "A", b"ab")]), ("map", "m", [(one, ("bytes", "A", b"ab"))]), ("struct", [(b"A", b"", ("bytes", "A", b"ab"))]),
            ("nilp", "struct"), ("nilp", "int"), ("nilp", "none"), ("nilp", "big"), ("nilp", "call"), ("nilp", "ptrptr"),
            ("list", "l", [("nilp", "struct"), ("nil",)]), ("map", "m", [(one, ("nilp", "struct"))]),
            ("unsup", "chan"), ("unsup", "func"), ("unsup", "uptr"), ("unsup", "unsafeptr"),
            ("unsup", "x:3ff0000000000000,0000000000000000"), ("unsup", "x32:3f800000,00000000"),
            ("list", "l", [one, ("unsup", "chan")]), ("struct", [(b"A", b"", ("unsup", "func"))]), ("tuple", [("unsup", "uptr")]),
            ("map", "m", [(one, ("unsup", "chan"))]), ("call", b"m", b"C", [("unsup", "func")]), ("ref", ("unsup", "chan")),
            ("str", "s", b"\xff\xfe"), ("str", "y", b"\xff"), ("str", "y", "\ud800".encode("utf-8", "surrogatepass")),
            ("str", "s", "�".encode()), ("str", "y", "�".encode()),
            ("list", "l", [("list", "l", [("list", "l", [("tuple", [("map", "m", [(one, ("list", "l", []))])])])])]),
            ]
    return out


def possible_errors(n, su, proto):
    """every documented error class some sub-value would raise if the encoder reaches it
    (which one is met first can depend on map / Dict / tag iteration order)"""
    out = set()
    def walk(n):
        k = n[0]
        if k == "unsup":
            out.add("err type:" + {"chan": "chan", "func": "func", "uptr": "uintptr", "unsafeptr": "unsafe.Pointer"}.get(
                n[1], "complex128" if n[1].startswith("x:") else "complex64"))
        elif k == "str":
            kind, b = n[1], n[2]
            uni = kind == "y" or (kind in ("s", "ns") and (su or proto >= 3))
            if uni and proto == 0 and not valid_utf8(b): out.add("err p0unicode")
        elif k == "tuple":
            for x in n[1]: walk(x)
        elif k == "list":
            for x in n[2]: walk(x)
        elif k == "map":
            for a, b in n[2]: walk(a); walk(b)
        elif k in ("class", "call"):
            if proto <= 3 and (b"\n" in n[1] or b"\n" in n[2]): out.add("err p0123global")
            for nm in (n[1], n[2]):
                if proto >= 4: walk(("str", "s", nm))
            if k == "call":
                for x in n[3]: walk(x)
        elif k == "ref":
            p = n[1]
            if proto == 0:
                if not (p[0] == "str" and p[1] == "s" and b"\n" not in p[2]): out.add("err p0persid")
            else:
                walk(p)
        elif k in ("struct", "zoo"):
            for nm, v in struct_fields(n):
                walk(("str", "s", nm)); walk(v)
        elif k == "ptr":
            if n[2] is not None and is_struct(n[1]): walk(("ref", n[2]))
            else: walk(n[1])
    walk(n)
    return out
