"""C07, C08, C17 (Dict API part): key lattice, histories, checks."""
import re, struct
from fractions import Fraction
import common as C
import pyvals as PV
from props import check, CHECKS

def fbits(x):
    return "%016x" % struct.unpack(">Q", struct.pack(">d", x))[0]
def f32bits(x):
    return "%08x" % struct.unpack(">I", struct.pack(">f", x))[0]

INT_TYPES = [("i8", -2**7, 2**7 - 1), ("i16", -2**15, 2**15 - 1), ("i32", -2**31, 2**31 - 1),
             ("i", -2**63, 2**63 - 1), ("i0", -2**63, 2**63 - 1),
             ("u8", 0, 2**8 - 1), ("u16", 0, 2**16 - 1), ("u32", 0, 2**32 - 1),
             ("u", 0, 2**64 - 1), ("u0", 0, 2**64 - 1)]

def int_tokens(z, rng=None, all_types=True):
    toks = []
    for name, lo, hi in INT_TYPES:
        if lo <= z <= hi:
            toks.append("%s:%d" % (name, z))
    toks.append("L:%d" % z)
    return toks

def float_tokens(z):
    """tokens of the float types that hold the integer/fraction z exactly"""
    toks = []
    try:
        f = float(z)
    except OverflowError:
        return toks
    if Fraction(f) == Fraction(z):
        toks.append("f:" + fbits(f))
        toks.append("x:%s,%s" % (fbits(f), fbits(0.0)))
        toks.append("x:%s,%s" % (fbits(f), fbits(-0.0)))
        try:
            g = struct.unpack(">f", struct.pack(">f", f))[0]
            if g == f:
                toks.append("f32:" + f32bits(f))
                toks.append("x32:%s,%s" % (f32bits(f), f32bits(0.0)))
        except (OverflowError, struct.error):
            pass
    return toks

def numeric_lattice(rng, kmax_int=70, kmax_float=1023):
    """exact value -> tokens of every Go type holding it"""
    groups = {}
    def add(z):
        key = Fraction(z)
        l = groups.setdefault(key, [])
        if not isinstance(z, Fraction) or z.denominator == 1:
            zi = int(z)
            if abs(zi) < 2**1200:
                for t in int_tokens(zi):
                    if t not in l: l.append(t)
        for t in float_tokens(z):
            if t not in l: l.append(t)
    for k in list(range(0, kmax_int + 1)) + [100, 127, 128, 200, 511, 512, 1000, 1022, 1023, 1024, 1100]:
        for d in (-2, -1, 0, 1, 2):
            for s in (1, -1):
                add(s * (2**k + d))
    for k in range(kmax_int + 1, kmax_float + 1, 37):
        for s in (1, -1):
            add(s * 2**k)
            add(s * (2**k + 2**(k - 52)))       # next float up
            add(s * (2**k + 1))                 # integer only
    for z in (0, 1, 2, 3, 10, 255, 256, 2**53 - 1, 2**53, 2**53 + 1, 2**53 + 2, 2**63 - 1, 2**63, 2**63 + 1,
              2**64 - 1, 2**64, 2**64 + 1, -2**63, -2**63 - 1, 2**63 + 2**11, 2**64 - 2**11):
        add(z); add(-z)
    for fr in (Fraction(1, 2), Fraction(3, 2), Fraction(1, 2**20), Fraction(1, 2**149), Fraction(1, 2**1074),
               Fraction(2**53 + 1, 2), Fraction(5, 4)):
        add(fr); add(-fr)
    for _ in range(200):
        add(rng.next() - 2**63)
        add(rng.below(2**32) - 2**31)
    return groups

SPECIAL_FLOATS = ["f:7ff8000000000000", "f:7ff8000000000001", "f:fff8000000000000", "f:7ff0000000000000",
                  "f:fff0000000000000", "f:0000000000000000", "f:8000000000000000",
                  "f32:7fc00000", "f32:7f800000", "f32:ff800000", "f32:80000000",
                  "x:7ff8000000000000,0000000000000000", "x:3ff0000000000000,7ff8000000000000",
                  "x:3ff0000000000000,3ff0000000000000", "x:0000000000000000,3ff0000000000000",
                  "x:7ff0000000000000,0000000000000000", "x:8000000000000000,8000000000000000",
                  "x32:3f800000,3f800000", "x:3ff0000000000000,8000000000000000"]

def hx(b): return b.hex()

STRINGISH = []
for content in (b"", b"a", b"b", b"ab", "é".encode(), b"\xff", b"a\x00"):
    STRINGISH += ["s:" + hx(content), "z:" + hx(content), "b:" + hx(content)]

OTHERS = ["N", "T", "F", "g:6d:43", "g:6d:44", "g:6e:43",
          "C( g:6d:43 t( i:1 ) )", "C( g:6d:43 t( f:3ff0000000000000 ) )", "C( g:6d:43 t( ) )",
          "C( g:6d:44 t( i:1 ) )", "R( i:1 )", "R( L:1 )", "R( s:61 )", "R( z:61 )", "R( t( i:1 s:61 ) )",
          "U:1", "U:2"]

UNHASHABLE = ["l[ ]", "l[ i:1 ]", "a:", "a:61", "m{ }", "m{ i:1 i:2 }", "d{ }", "d{ i:1 i:2 }",
              "t( l[ ] )", "t( i:1 t( a:61 ) )", "C( g:6d:43 t( l[ ] ) )", "R( l[ i:1 ] )", "R( m{ } )",
              "t( i:1 t( i:2 t( m{ } ) ) )", "R( t( l[ ] ) )", "C( g:6d:43 t( R( a:00 ) ) )"]

def tuples_of(rng, atoms, n):
    out = []
    for _ in range(n):
        k = rng.choice([0, 1, 2, 2, 3])
        items = [rng.choice(atoms) for _ in range(k)]
        if rng.below(4) == 0 and items:
            items[rng.below(len(items))] = "t( " + " ".join(rng.choice(atoms) for _ in range(rng.below(3))) + " )"
        out.append("t( " + " ".join(items) + " )" if items else "t( )")
    return out

def key_pairs(rng, tier):
    q = tier == "quick"
    groups = numeric_lattice(rng.fork("lattice"))
    keys = sorted(groups)
    pairs = []
    r = rng.fork("pairs")
    # 1. equal-valued cross-type pairs and their numeric neighbours
    for idx, key in enumerate(keys):
        toks = groups[key]
        neigh = []
        for d in (1, -1, 2):
            neigh += groups.get(key + d, [])
        for a in toks:
            others = toks + neigh
            cap = 6 if q else 40
            chosen = others if len(others) <= cap else [r.choice(others) for _ in range(cap)]
            for b in chosen:
                pairs.append((a, b))
    # 2. specials against everything small, both orders
    small = []
    for z in (0, 1, -1, 2):
        small += groups.get(Fraction(z), [])
    atoms = small + SPECIAL_FLOATS + STRINGISH + OTHERS
    for a in SPECIAL_FLOATS + STRINGISH + OTHERS:
        for b in atoms:
            pairs.append((a, b)); pairs.append((b, a))
    # 3. tuples
    tatoms = [t for z in (0, 1, 2) for t in groups[Fraction(z)]][:30] + STRINGISH[:9] + ["N", "T", "f:7ff8000000000000"]
    ts = tuples_of(r, tatoms, 150 if q else 1500)
    for i in range(len(ts)):
        pairs.append((ts[i], ts[i]))
        pairs.append((ts[i], r.choice(ts)))
        # the same shape with each atom replaced by an equal-valued atom of another type
        b = " ".join((r.choice(groups[Fraction(int(t.split(":")[1]))]) if re.match(r"^[iu]\d*:-?\d+$", t) else t)
                     for t in ts[i].split())
        pairs.append((ts[i], b))
    # 4. random pairs across the whole lattice
    allt = [t for k in keys for t in groups[k]] + atoms
    for _ in range(5000 if q else 100000):
        pairs.append((r.choice(allt), r.choice(allt)))
    # 5. unhashable keys (for the hashability observation)
    for u in UNHASHABLE:
        pairs.append((u, "i:1")); pairs.append(("i:1", u))
    # de-duplicate, keep order
    seen, out = set(), []
    for p in pairs:
        if p not in seen:
            seen.add(p); out.append(p)
    return out, len(keys)

def kv(s):
    return dict(x.split("=") for x in s.split() if "=" in x)

@check("C07")
def c07(res, rng, tier):
    pairs, nvals = key_pairs(rng, tier)
    lines = ["eq %s %s" % p for p in pairs]
    impl = C.implrun(lines)
    model = C.modelrun(lines)
    nlook = 16 if tier == "quick" else 64
    suspicious, cpy = [], []
    mism = 0
    neq_true = 0
    for i, (a, b) in enumerate(pairs):
        io, mo = impl[i], model[i]
        try:
            pa, pb = PV.parse(a), PV.parse(b)
            py = PV.py_eq(pa, pb)
        except Exception as e:
            py = None
        cpy.append(py)
        if io.startswith(("PANIC", "CRASHED", "DRIVER")) or mo.startswith(("DRIVER", "CRASHED")):
            res.violation("equal/hash crashed: impl=%s model=%s" % (io[:100], mo[:100]),
                          {"kind": "impl", "a": a, "b": b, "impl": io[:300], "model": mo[:300]})
            continue
        ki, km = kv(io), kv(mo)
        hashable_both = ki["ha"] == "1" and ki["hb"] == "1"
        # specification side: the model's py_eq must be CPython's ==
        if py is not None and km["ha"] == "1" and km["hb"] == "1" and km["pyeq"] != ("1" if py else "0"):
            res.violation("specification model py_eq disagrees with CPython == on (%s, %s)" % (a, b),
                          {"kind": "spec-correspondence", "a": a, "b": b, "model": mo, "cpython": py}, found_input=False)
        # implementation vs model of the implementation
        if any(ki[k] != km[k] for k in ("eq", "ha", "hb", "samehash")):
            mism += 1
            suspicious.append(i)
        elif hashable_both and py is not None and (ki["eq"] == "1") != py:
            suspicious.append(i)
        elif hashable_both and ki["eq"] == "1" and ki["samehash"] != "1":
            suspicious.append(i)
        if ki["eq"] == "1":
            neq_true += 1
    # direct oracle through the public API: lookup in fresh Dicts
    r = rng.fork("lookup")
    sample = [i for i in range(len(pairs)) if cpy[i] is not None and r.below(8) == 0]
    look_idx = sorted(set(suspicious + sample))
    look_idx = [i for i in look_idx if kv(impl[i]).get("ha") == "1" and kv(impl[i]).get("hb") == "1"]
    llines = ["lookup %d %s %s" % ((4096 if i in set(suspicious) else nlook), pairs[i][0], pairs[i][1]) for i in look_idx]
    lres = C.implrun(llines)
    explained = set()
    for j, i in enumerate(look_idx):
        a, b = pairs[i]
        m = re.match(r"found=(\d+)/(\d+)", lres[j])
        if not m:
            res.violation("Dict lookup crashed: %s" % lres[j][:100], {"kind": "impl", "a": a, "b": b, "impl": lres[j][:300]})
            continue
        found, n = int(m.group(1)), int(m.group(2))
        py = cpy[i]
        if (py and found != n) or (not py and found != 0):
            explained.add(i)
            res.violation("Dict holding %s is %sfound under %s in %d of %d fresh Dicts; Python says %s == %s is %s"
                          % (a, "" if found else "not ", b, found, n, a, b, py),
                          {"kind": "impl", "a": a, "b": b, "found": found, "tries": n, "python_eq": py,
                           "impl_eq": impl[i], "model": model[i],
                           "cmd": "echo 'lookup %d %s %s' | harness/go/implrun" % (n, a, b)})
    for i in suspicious:
        if i in explained:
            continue
        a, b = pairs[i]
        res.violation("correspondence: equal/hash of (%s, %s): implementation %s, model %s, CPython == %s"
                      % (a, b, impl[i], model[i], cpy[i]),
                      {"kind": "correspondence", "a": a, "b": b, "impl": impl[i], "model": model[i], "python_eq": cpy[i]},
                      found_input=False)
    res.coverage.update({
        "evaluations": len(pairs) + len(llines), "distinct_nontrivial": neq_true,
        "rule": "ordered key pairs: equal-valued cross-type pairs of a boundary lattice (+-2^k+d in every Go numeric type holding it, big ints to 2^1100, floats to 2^1023, fractions, subnormals) and numeric neighbours, NaN/Inf/-0/complex specials, string/Bytes/ByteString, Tuples (incl. type-substituted copies), None/Class/Call/Ref, random pairs, unhashable keys; non-trivial = pairs that equal() accepts",
        "programs": len(pairs), "disagreements_checked": len(pairs),
        "lattice_values": nvals, "black_box_lookups": len(llines), "cpython_eq_evaluated": sum(1 for x in cpy if x is not None)})
    res.samples = [{"a": pairs[i][0], "b": pairs[i][1], "impl": impl[i], "model": model[i], "cpython_eq": cpy[i]}
                   for i in range(0, len(pairs), max(1, len(pairs) // 6))]
