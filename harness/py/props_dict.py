"""C07, C08, C17 (Dict API part): key lattice, histories, checks."""
import re, struct
from fractions import Fraction
import common as C
import pyvals as PV
from props import check, CHECKS

def fbits(x):
    return "%016x" % struct.unpack(">Q", struct.pack(">d", x))[0]
def f32bits(x):
    return "%08x" % struct.unpack(">I", struct.pack(">f", x))[0]

INT_TYPES = [("i8", -2**7, 2**7 - 1), ("i16", -2**15, 2**15 - 1), ("i32", -2**31, 2**31 - 1),
             ("i", -2**63, 2**63 - 1), ("i0", -2**63, 2**63 - 1),
             ("u8", 0, 2**8 - 1), ("u16", 0, 2**16 - 1), ("u32", 0, 2**32 - 1),
             ("u", 0, 2**64 - 1), ("u0", 0, 2**64 - 1)]

def int_tokens(z, rng=None, all_types=True):
    toks = []
    for name, lo, hi in INT_TYPES:
        if lo <= z <= hi:
            toks.append("%s:%d" % (name, z))
    toks.append("L:%d" % z)
    return toks

def float_tokens(z):
    """tokens of the float types that hold the integer/fraction z exactly"""
    toks = []
    try:
        f = float(z)
    except OverflowError:
        return toks
    if Fraction(f) == Fraction(z):
        toks.append("f:" + fbits(f))
        toks.append("x:%s,%s" % (fbits(f), fbits(0.0)))
        toks.append("x:%s,%s" % (fbits(f), fbits(-0.0)))
        try:
            g = struct.unpack(">f", struct.pack(">f", f))[0]
            if g == f:
                toks.append("f32:" + f32bits(f))
                toks.append("x32:%s,%s" % (f32bits(f), f32bits(0.0)))
        except (OverflowError, struct.error):
            pass
    return toks

def numeric_lattice(rng, kmax_int=70, kmax_float=1023):
    """exact value -> tokens of every Go type holding it"""
    groups = {}
    def add(z):
        key = Fraction(z)
        l = groups.setdefault(key, [])
        if not isinstance(z, Fraction) or z.denominator == 1:
            zi = int(z)
            if abs(zi) < 2**1200:
                for t in int_tokens(zi):
                    if t not in l: l.append(t)
        for t in float_tokens(z):
            if t not in l: l.append(t)
    for k in list(range(0, kmax_int + 1)) + [100, 127, 128, 200, 511, 512, 1000, 1022, 1023, 1024, 1100]:
        for d in (-2, -1, 0, 1, 2):
            for s in (1, -1):
                add(s * (2**k + d))
    for k in range(kmax_int + 1, kmax_float + 1, 37):
        for s in (1, -1):
            add(s * 2**k)
            add(s * (2**k + 2**(k - 52)))       # next float up
            add(s * (2**k + 1))                 # integer only
    for z in (0, 1, 2, 3, 10, 255, 256, 2**53 - 1, 2**53, 2**53 + 1, 2**53 + 2, 2**63 - 1, 2**63, 2**63 + 1,
              2**64 - 1, 2**64, 2**64 + 1, -2**63, -2**63 - 1, 2**63 + 2**11, 2**64 - 2**11):
        add(z); add(-z)
    for fr in (Fraction(1, 2), Fraction(3, 2), Fraction(1, 2**20), Fraction(1, 2**149), Fraction(1, 2**1074),
               Fraction(2**53 + 1, 2), Fraction(5, 4)):
        add(fr); add(-fr)
    for _ in range(200):
        add(rng.next() - 2**63)
        add(rng.below(2**32) - 2**31)
    return groups

SPECIAL_FLOATS = ["f:7ff8000000000000", "f:7ff8000000000001", "f:fff8000000000000", "f:7ff0000000000000",
                  "f:fff0000000000000", "f:0000000000000000", "f:8000000000000000",
                  "f32:7fc00000", "f32:7f800000", "f32:ff800000", "f32:80000000",
                  "x:7ff8000000000000,0000000000000000", "x:3ff0000000000000,7ff8000000000000",
                  "x:3ff0000000000000,3ff0000000000000", "x:0000000000000000,3ff0000000000000",
                  "x:7ff0000000000000,0000000000000000", "x:8000000000000000,8000000000000000",
                  "x32:3f800000,3f800000", "x:3ff0000000000000,8000000000000000"]

def hx(b): return b.hex()

STRINGISH = []
for content in (b"", b"a", b"b", b"ab", "é".encode(), b"\xff", b"a\x00"):
    STRINGISH += ["s:" + hx(content), "z:" + hx(content), "b:" + hx(content)]

OTHERS = ["N", "T", "F", "g:6d:43", "g:6d:44", "g:6e:43",
          "C( g:6d:43 t( i:1 ) )", "C( g:6d:43 t( f:3ff0000000000000 ) )", "C( g:6d:43 t( ) )",
          "C( g:6d:44 t( i:1 ) )", "R( i:1 )", "R( L:1 )", "R( s:61 )", "R( z:61 )", "R( t( i:1 s:61 ) )",
          "U:1", "U:2",
          # zero-valued fields / nil slices that are the same Python object as their non-nil forms
          "tnil", "t( )", "C( g:6d:43 tnil )", "C( g:6d:44 tnil )", "C( g:: tnil )", "C( g:: t( ) )", "g::", "R( tnil )", "R( t( ) )",
          "R( i:0 )", "R( F )", "R( f:0000000000000000 )", "R( s: )", "t( tnil )", "t( t( ) )", "C( g:6d:43 t( tnil ) )", "C( g:6d:43 t( t( ) ) )"]

UNHASHABLE = ["l[ ]", "l[ i:1 ]", "a:", "a:61", "m{ }", "m{ i:1 i:2 }", "d{ }", "d{ i:1 i:2 }",
              "t( l[ ] )", "t( i:1 t( a:61 ) )", "C( g:6d:43 t( l[ ] ) )", "R( l[ i:1 ] )", "R( m{ } )",
              "t( i:1 t( i:2 t( m{ } ) ) )", "R( t( l[ ] ) )", "C( g:6d:43 t( R( a:00 ) ) )"]

def tuples_of(rng, atoms, n):
    out = []
    for _ in range(n):
        k = rng.choice([0, 1, 2, 2, 3])
        items = [rng.choice(atoms) for _ in range(k)]
        if rng.below(4) == 0 and items:
            items[rng.below(len(items))] = "t( " + " ".join(rng.choice(atoms) for _ in range(rng.below(3))) + " )"
        out.append("t( " + " ".join(items) + " )" if items else "t( )")
    return out

def key_pairs(rng, tier):
    q = tier == "quick"
    groups = numeric_lattice(rng.fork("lattice"))
    keys = sorted(groups)
    pairs = []
    r = rng.fork("pairs")
    # 1. equal-valued cross-type pairs and their numeric neighbours
    for idx, key in enumerate(keys):
        toks = groups[key]
        neigh = []
        for d in (1, -1, 2):
            neigh += groups.get(key + d, [])
        for a in toks:
            others = toks + neigh
            cap = 6 if q else 40
            chosen = others if len(others) <= cap else [r.choice(others) for _ in range(cap)]
            for b in chosen:
                pairs.append((a, b))
    # 2. specials against everything small, both orders
    small = []
    for z in (0, 1, -1, 2):
        small += groups.get(Fraction(z), [])
    atoms = small + SPECIAL_FLOATS + STRINGISH + OTHERS
    for a in SPECIAL_FLOATS + STRINGISH + OTHERS:
        for b in atoms:
            pairs.append((a, b)); pairs.append((b, a))
    # 2b. complex numbers with a non-zero imaginary part: +-0 / integral / fractional / huge / inf / nan
    #     parts in both precisions, every ordered pair (equal ones differ at most in the sign of a zero
    #     or in precision), also wrapped in a Tuple
    cparts = [0.0, -0.0, 1.0, -1.0, 0.5, 2.0**53, 2.0**60, float("inf"), float("nan")]
    cplx = []
    for re_ in cparts:
        for im_ in cparts:
            if im_ == 0:
                continue
            cplx.append("x:%s,%s" % (fbits(re_), fbits(im_)))
            if all(x != x or abs(x) in (float("inf"),) or struct.unpack(">f", struct.pack(">f", x))[0] == x for x in (re_, im_)):
                cplx.append("x32:%s,%s" % (f32bits(re_), f32bits(im_)))
    for a in cplx:
        for b in (cplx if not q else [c for c in cplx if c.split(",")[1] == a.split(",")[1] or r.below(6) == 0]):
            pairs.append((a, b))
        pairs.append(("t( %s i:1 )" % a, "t( %s f:3ff0000000000000 )" % a.replace("x:0000000000000000,", "x:8000000000000000,")))
        for b in ("f:" + fbits(1.0), "i:1", "x:%s,%s" % (fbits(1.0), fbits(0.0)), "N"):
            pairs.append((a, b)); pairs.append((b, a))
    # 3. tuples
    tatoms = [t for z in (0, 1, 2) for t in groups[Fraction(z)]][:30] + STRINGISH[:9] + ["N", "T", "f:7ff8000000000000"]
    ts = tuples_of(r, tatoms, 150 if q else 1500)
    for i in range(len(ts)):
        pairs.append((ts[i], ts[i]))
        pairs.append((ts[i], r.choice(ts)))
        # the same shape with each atom replaced by an equal-valued atom of another type
        b = " ".join((r.choice(groups[Fraction(int(t.split(":")[1]))]) if re.match(r"^[iu]\d*:-?\d+$", t) else t)
                     for t in ts[i].split())
        pairs.append((ts[i], b))
    # 4. random pairs across the whole lattice
    allt = [t for k in keys for t in groups[k]] + atoms
    for _ in range(5000 if q else 100000):
        pairs.append((r.choice(allt), r.choice(allt)))
    # 5. unhashable keys (for the hashability observation)
    for u in UNHASHABLE:
        pairs.append((u, "i:1")); pairs.append(("i:1", u))
    # de-duplicate, keep order
    seen, out = set(), []
    for p in pairs:
        if p not in seen:
            seen.add(p); out.append(p)
    return out, len(keys)

def kv(s):
    return dict(x.split("=") for x in s.split() if "=" in x)

@check("C07")
def c07(res, rng, tier):
    pairs, nvals = key_pairs(rng, tier)
    lines = ["eq %s %s" % p for p in pairs]
    impl = C.implrun(lines)
    model = C.modelrun(lines)
    nlook = 16 if tier == "quick" else 64
    suspicious, cpy = [], []
    mism = 0
    neq_true = 0
    for i, (a, b) in enumerate(pairs):
        io, mo = impl[i], model[i]
        try:
            pa, pb = PV.parse(a), PV.parse(b)
            py = PV.py_eq(pa, pb)
        except Exception as e:
            py = None
        cpy.append(py)
        if io.startswith(("PANIC", "CRASHED", "DRIVER")) or mo.startswith(("DRIVER", "CRASHED")):
            res.violation("equal/hash crashed: impl=%s model=%s" % (io[:100], mo[:100]),
                          {"kind": "impl", "a": a, "b": b, "impl": io[:300], "model": mo[:300]})
            continue
        ki, km = kv(io), kv(mo)
        hashable_both = ki["ha"] == "1" and ki["hb"] == "1"
        # specification side: the model's py_eq must be CPython's ==
        if py is not None and km["ha"] == "1" and km["hb"] == "1" and km["pyeq"] != ("1" if py else "0"):
            res.violation("specification model py_eq disagrees with CPython == on (%s, %s)" % (a, b),
                          {"kind": "spec-correspondence", "a": a, "b": b, "model": mo, "cpython": py}, found_input=False)
        # implementation vs model of the implementation
        if any(ki[k] != km[k] for k in ("eq", "ha", "hb", "samehash")):
            mism += 1
            suspicious.append(i)
        elif hashable_both and py is not None and (ki["eq"] == "1") != py:
            suspicious.append(i)
        elif hashable_both and ki["eq"] == "1" and ki["samehash"] != "1":
            suspicious.append(i)
        if ki["eq"] == "1":
            neq_true += 1
    # direct oracle through the public API: lookup in fresh Dicts
    r = rng.fork("lookup")
    sample = [i for i in range(len(pairs)) if cpy[i] is not None and r.below(8) == 0]
    look_idx = sorted(set(suspicious + sample))
    look_idx = [i for i in look_idx if kv(impl[i]).get("ha") == "1" and kv(impl[i]).get("hb") == "1"]
    llines = ["lookup %d %s %s" % ((4096 if i in set(suspicious) else nlook), pairs[i][0], pairs[i][1]) for i in look_idx]
    lres = C.implrun(llines)
    explained = set()
    for j, i in enumerate(look_idx):
        a, b = pairs[i]
        m = re.match(r"found=(\d+)/(\d+)", lres[j])
        if not m:
            res.violation("Dict lookup crashed: %s" % lres[j][:100], {"kind": "impl", "a": a, "b": b, "impl": lres[j][:300]})
            continue
        found, n = int(m.group(1)), int(m.group(2))
        py = cpy[i]
        if (py and found != n) or (not py and found != 0):
            explained.add(i)
            res.violation("Dict holding %s is %sfound under %s in %d of %d fresh Dicts; Python says %s == %s is %s"
                          % (a, "" if found else "not ", b, found, n, a, b, py),
                          {"kind": "impl", "a": a, "b": b, "found": found, "tries": n, "python_eq": py,
                           "impl_eq": impl[i], "model": model[i],
                           "cmd": "echo 'lookup %d %s %s' | harness/go/implrun" % (n, a, b)})
    for i in suspicious:
        if i in explained:
            continue
        a, b = pairs[i]
        res.violation("correspondence: equal/hash of (%s, %s): implementation %s, model %s, CPython == %s"
                      % (a, b, impl[i], model[i], cpy[i]),
                      {"kind": "correspondence", "a": a, "b": b, "impl": impl[i], "model": model[i], "python_eq": cpy[i]},
                      found_input=False)
    res.coverage.update({
        "evaluations": len(pairs) + len(llines), "distinct_nontrivial": neq_true,
        "rule": "ordered key pairs: equal-valued cross-type pairs of a boundary lattice (+-2^k+d in every Go numeric type holding it, big ints to 2^1100, floats to 2^1023, fractions, subnormals) and numeric neighbours, NaN/Inf/-0/complex specials, complex numbers with non-zero imaginary part over {+-0, +-1, 0.5, 2^53, 2^60, inf, nan}^2 in both precisions, string/Bytes/ByteString, Tuples (incl. type-substituted copies), None/Class/Call/Ref, random pairs, unhashable keys; non-trivial = pairs that equal() accepts",
        "programs": len(pairs), "disagreements_checked": len(pairs),
        "lattice_values": nvals, "black_box_lookups": len(llines), "cpython_eq_evaluated": sum(1 for x in cpy if x is not None)})
    res.samples = [{"a": pairs[i][0], "b": pairs[i][1], "impl": impl[i], "model": model[i], "cpython_eq": cpy[i]}
                   for i in range(0, len(pairs), max(1, len(pairs) // 6))]

# =============================================================================================
# C08 — Dict is a correct map under every history
# =============================================================================================
ALPHA10 = ["i:1", "f:3ff0000000000000", "T", "L:1", "s:61", "b:61", "z:61",
           "t( i:1 s:61 )", "t( f:3ff0000000000000 z:61 )", "t( L:1 b:61 )"]

def histories_exhaustive(maxlen, alphabet=None):
    ops = [(o, k) for o in "SDG" for k in (alphabet or ALPHA10)]
    out = []
    def rec(prefix, n):
        if prefix:
            out.append(list(prefix))
        if n == 0:
            return
        for op in ops:
            prefix.append(op)
            rec(prefix, n - 1)
            prefix.pop()
    rec([], maxlen)
    return out

def render_history(h, every_len=False):
    toks = []
    for i, (o, k) in enumerate(h):
        if o == "S":
            toks += ["S", k, ("NIL" if i % 3 == 2 else "i:%d" % i)]    # a Dict used as a set stores nil values
        else:
            toks += [o, k]
        if every_len:
            toks.append("L")
    toks += ["L", "I"]
    return "dict " + " ".join(toks)

def random_history(rng, keys, n):
    h = []
    live = []
    phase_grow = True
    for i in range(n):
        if i % 200 == 0:
            phase_grow = rng.below(3) != 0
        r = rng.below(10)
        if phase_grow: op = "S" if r < 6 else ("G" if r < 8 else "D")
        else: op = "D" if r < 6 else ("G" if r < 8 else "S")
        if op != "S" and live and rng.below(3):
            k = rng.choice(live)
        else:
            k = rng.choice(keys)
        if op == "S": live.append(k)
        h.append((op, k))
    return h

def split3(obs):
    a = obs.split(" ## ")
    return a if len(a) == 3 else [obs, "", "multi="]

def iter_keys_distinct(itertxt):
    """keys of an iter(..)={ k v ; k v } dump must be pairwise unequal under CPython =="""
    m = re.match(r"iter\((\d+)\)=\{ (.*) \}$", itertxt)
    if not m or not m.group(2).strip():
        return True, 0
    ks = []
    for item in m.group(2).split(" ; "):
        try:
            k, v = PV.parse_two(item)
        except Exception:
            return True, 0
        ks.append(k)
    for i in range(len(ks)):
        for j in range(i + 1, len(ks)):
            if PV.py_eq(ks[i], ks[j]):
                return False, len(ks)
    return True, len(ks)

KNOWN_C08 = "nontransitive_multi_match"

@check("C08")
def c08(res, rng, tier):
    q = tier == "quick"
    hs = histories_exhaustive(3 if q else 4)
    lines = [render_history(h) for h in hs]
    # one step longer over the three string kinds alone (the non-transitive corner: anything remembered from an
    # earlier Get / Set must be forgotten when a key of ANOTHER kind replaces the entry), bare and inside tuples
    for alpha in (["s:61", "z:61", "b:61"], ["t( i:1 s:61 )", "t( f:3ff0000000000000 z:61 )", "t( L:1 b:61 )"]):
        lines += [render_history(h) for h in histories_exhaustive(4 if q else 5, alpha) if len(h) >= 4]
    # long random histories over the C07 lattice (floats included), Len after every op
    groups = numeric_lattice(rng.fork("lat"))
    keys = [t for k in sorted(groups) for t in groups[k]][:4000] + STRINGISH + OTHERS + SPECIAL_FLOATS[3:7]
    # the ends of the float64 range and the integer / float crossovers are always in the pool
    for z in (2**1023, -2**1023, 2**1023 + 2**971, 2**1024 - 2**971, 2**1024, 2**1022, 2**970, 2**64, 2**63, -2**63, 2**53, 2**53 + 1, 2**100):
        keys += groups.get(Fraction(z), [])
    extremes = [t for z in (2**1023, 2**1024 - 2**971, -2**1023, 2**64, 2**63, 2**53) for t in groups.get(Fraction(z), [])]
    keys += tuples_of(rng.fork("tup"), ALPHA10[:7] + ["N"], 200)
    r = rng.fork("hist")
    # the Dict model scans every entry with exact arithmetic (about 30 ms per operation at 300 entries):
    # histories for model + implementation stay moderate; the big ones run on the implementation only,
    # against a reference dictionary computed here with CPython's own == (below)
    nlong = 24 if q else 100
    for i in range(nlong):
        pool = [r.choice(keys) for _ in range(r.choice([12, 40, 300, 2000] if q else [12, 40, 300, 300]))] + ALPHA10
        lines.append(render_history(random_history(r, pool, r.choice([200, 600]) if q else r.choice([600, 1500])), every_len=True))
    big_lines = []
    if not q:
        rb = rng.fork("big")
        for i in range(24):
            pool = [rb.choice(keys) for _ in range(rb.choice([300, 1000, 2000]))] + ALPHA10
            big_lines.append(render_history(random_history(rb, pool, rb.choice([3000, 6000])), every_len=True))
    # multi-collision family: every query key against every ordered selection (<= 4) of the stored
    # keys that are equal to it ("Set and Del first remove EVERY entry whose key equals their argument")
    import itertools
    K = ALPHA10 + ["t( z:61 z:62 )", "t( s:61 s:62 )", "t( b:61 b:62 )", "t( s:61 b:62 )", "t( b:61 s:62 )",
                   "t( z:61 s:62 )", "t( i:1 z:61 z:62 )", "t( T s:61 b:62 )", "t( f:3ff0000000000000 b:61 s:62 )",
                   # the non-transitive string kinds inside the struct-like key types
                   "R( z:61 )", "R( s:61 )", "R( b:61 )", "C( g:6d:43 t( z:61 ) )", "C( g:6d:43 t( s:61 ) )", "C( g:6d:43 t( b:61 ) )",
                   "t( R( z:61 ) i:1 )", "t( R( s:61 ) T )", "t( R( b:61 ) f:3ff0000000000000 )", "R( t( z:61 i:1 ) )", "R( t( s:61 L:1 ) )", "R( t( b:61 T ) )"]
    pk = {k: PV.parse(k) for k in K}
    for qk in K:
        M = [k for k in K if k != qk and PV.py_eq(pk[qk], pk[k])]
        for n in range(1, min(4, len(M)) + 1):
            for sel in itertools.permutations(M, n):
                if n >= 3 and hash((qk, sel)) % 3:      # thin out the longest ones
                    continue
                pre = [("S", k) for k in sel]
                for last in (("D", qk), ("S", qk)):
                    h = pre + [last]
                    toks = []
                    for i, (o, k) in enumerate(h):
                        toks += (["S", k, ("NIL" if (i + len(sel)) % 2 else "i:%d" % i)] if o == "S" else [o, k])
                    toks += ["L", "I"]
                    for k in sel:
                        toks += ["G", k]
                    toks += ["G", qk]
                    lines.append("dict " + " ".join(toks))
    # every representation of an extreme value against every other one: Set a, Set b, Len, Get a, Del b, Len
    for z in (2**1023, 2**1024 - 2**971, -2**1023, 2**64, 2**63, 2**53, 2**1023 + 2**971):
        toks_z = groups.get(Fraction(z), [])
        for a in toks_z:
            for b in toks_z:
                lines.append("dict S %s i:1 S %s i:2 L G %s G %s D %s L I" % (a, b, a, b, b))
    # keys that are not equal to themselves (NaN, and Tuple / Call / Ref / complex holding one): every Set adds an entry
    # nothing can find again, and Len and Iter still agree on how many there are
    nan_keys = ["f:7ff8000000000001", "f:fff8000000000000", "t( f:7ff8000000000001 )", "t( i:1 f:7ff8000000000001 )",
                "C( g:6d:43 t( f:7ff8000000000001 ) )", "R( f:7ff8000000000001 )", "x:7ff8000000000001,0000000000000000", "f32:7fc00000"]
    for a in nan_keys:
        lines.append("dict S %s i:1 L I G %s L I" % (a, a))
        lines.append("dict S i:1 i:0 S %s i:1 S %s i:2 L I D %s L I S i:2 NIL L I" % (a, a, a))
        for b_ in nan_keys[:4]:
            lines.append("dict S %s i:1 S %s i:2 S s:61 i:3 L I D %s L I" % (a, b_, b_))
    known = [k for k in C.load_known_findings() if k.get("property") == "C08" and k.get("class") == KNOWN_C08]
    if known:
        lines.append("dict S s:61 i:1 S b:61 i:2 G z:61")       # the listed witness
    impl = C.implrun(lines)
    model = [re.sub(r"\bMARK\b", "NIL", m) for m in C.modelrun(lines)]     # nil values: see ocaml/main.ml
    nontriv = 0
    multi_seen = 0
    mism = 0
    # big histories: implementation vs a reference dictionary under CPython's ==
    for bl, bo in zip(big_lines, C.implrun(big_lines) if big_lines else []):
        toks = bl.split()[1:]
        ents = []                      # [(key object, value token)]
        outs, j, amb = [], 0, set()
        while j < len(toks):
            op = toks[j]
            if op == "L":
                outs.append("L:%d" % len(ents)); j += 1; continue
            if op == "I":
                break
            kp = PV.P(toks[j + 1:]); k = kp.value(); used = kp.i
            eq = [n for n, (k2, _) in enumerate(ents) if PV.py_eq(k, k2)]
            if op == "S":
                vtok = toks[j + 1 + used]
                ents = [e for n, e in enumerate(ents) if n not in eq] + [(k, vtok)]
                outs.append("S:ok"); j += 2 + used
            elif op == "D":
                ents = [e for n, e in enumerate(ents) if n not in eq]
                outs.append("D:ok"); j += 1 + used
            elif op == "G":
                if len(eq) > 1: amb.add(len(outs))
                outs.append("G:" + (ents[eq[-1]][1] if eq else "none")); j += 1 + used
            else:
                break
        got = bo.split(" | ")
        if got and got[-1].startswith("iter("):
            got = got[:-1]
        bad = [p for p in range(min(len(got), len(outs))) if got[p] != outs[p] and p not in amb]
        if len(got) != len(outs) or bad:
            p0 = bad[0] if bad else min(len(got), len(outs))
            res.violation("Dict disagrees with the reference dictionary (CPython ==) on a long history at output %d: %s vs %s"
                          % (p0, (got[p0] if p0 < len(got) else "-")[:80], (outs[p0] if p0 < len(outs) else "-")[:80]),
                          {"kind": "impl", "history": bl[:8000], "output_index": p0, "impl": " | ".join(got[max(0, p0 - 3):p0 + 2])[:400]})
        else:
            nontriv += 1
    for i, (io, mo) in enumerate(zip(impl, model)):
        if io.startswith(("PANIC", "CRASHED", "TIMEOUT")) or "PANIC(" in io:
            res.violation("Dict operation panicked / hung: %s" % io[:200],
                          {"kind": "impl", "history": lines[i][:4000], "impl": io[:500]})
            continue
        md, mr, mm = split3(mo)
        multi = set(int(x) for x in mm[len("multi="):].split(",") if x)
        iparts, dparts, rparts = io.split(" | "), md.split(" | "), mr.split(" | ")
        if len(iparts) != len(rparts):
            res.violation("harness: observation length mismatch", {"kind": "correspondence", "history": lines[i][:2000],
                          "impl": io[:500], "model": mo[:500]}, found_input=False)
            continue
        multi_out = multi      # the model numbers every operation, L and I included = output index
        bad = None
        for p in range(len(iparts)):
            if iparts[p] != rparts[p]:
                if p in multi_out and iparts[p].startswith("G:") and iparts[p] != "G:none":
                    multi_seen += 1       # known finding: some equal entry, not the most recent
                    continue
                bad = p
                break
        if bad is not None:
            res.violation("Dict disagrees with the reference dictionary at output %d: Dict %s, reference %s"
                          % (bad, iparts[bad][:120], rparts[bad][:120]),
                          {"kind": "impl", "history": lines[i][:6000], "output_index": bad,
                           "impl": iparts[bad][:300], "reference": rparts[bad][:300],
                           "cmd": "echo '<history>' | harness/go/implrun"})
            continue
        if iparts != dparts:
            diffp = [p for p in range(min(len(iparts), len(dparts))) if iparts[p] != dparts[p]]
            if not all(p in multi_out for p in diffp):
                mism += 1
                if mism <= 3:
                    res.violation("correspondence: Dict model and implementation differ on a history",
                                  {"kind": "correspondence", "history": lines[i][:4000], "impl": io[:500], "model": md[:500]},
                                  found_input=False)
        # Len == number of entries Iter yields, keys pairwise unequal (CPython ==)
        lens = [x for x in iparts if x.startswith("L:")]
        its = [x for x in iparts if x.startswith("iter(")]
        if lens and its:
            n_it = int(re.match(r"iter\((\d+)\)", its[-1]).group(1))
            if int(lens[-1][2:]) != n_it:
                res.violation("Len %s != entries yielded by Iter %d" % (lens[-1], n_it),
                              {"kind": "impl", "history": lines[i][:6000], "impl": io[-400:]})
            okd, nk = iter_keys_distinct(its[-1])
            if not okd:
                res.violation("two stored keys are equal to each other", {"kind": "impl", "history": lines[i][:6000], "iter": its[-1][:1000]})
        nontriv += 1
    if known:
        if multi_seen:
            res.known.append("%s: Get with a ByteString key equal to two mutually unequal stored keys (str and bytes) returns the entry in the earlier slot, not the most recently set one; witness Set('a',1);Set(b'a',2);Get(py2 'a') -> %s (%d occurrences in this run)"
                             % (KNOWN_C08, impl[-1].split(" | ")[-1], multi_seen))
    elif multi_seen:
        res.violation("Get returns an entry that is not the most recently set equal one (multi-match)",
                      {"kind": "impl", "history": "dict S s:61 i:1 S b:61 i:2 G z:61", "occurrences": multi_seen})
    res.coverage.update({
        "evaluations": len(lines), "distinct_nontrivial": nontriv, "exhaustive": True,
        "rule": "all op sequences of length <= %d over {Set,Del,Get} x the 10-key colliding alphabet (exhaustive), plus %d random histories of 300-6000 ops over the C07 lattice with Len after every op; every output compared with the extracted RefDict and the Dict model; values include nil (a Dict used as a set); the leading run of Sets goes through NewDictWithData / NewDictWithSizeHint / NewDict depending on its length; multi-collision family with the string kinds inside Tuples, Ref, Call; non-trivial = history executed and compared" % (3 if q else 4, nlong),
        "programs": len(lines), "disagreements_checked": len(lines), "multi_match_gets": multi_seen,
        "exhaustive_length": 3 if q else 4})
    res.samples = [{"history": lines[i][:200], "impl": impl[i][:200]} for i in (0, 31, 1000, len(lines) - 2)]

# =============================================================================================
# C17 — unhashable dict keys: error from Decode, panic 'unhashable type:' from the Dict API
# =============================================================================================
import struct as _st

def unhashable_key_programs():
    """(description, program bytes that push ONE key containing an unhashable object): every
    composition of depth <= 3 of the wrappers Tuple / Call arguments / Ref id around each base"""
    import itertools
    base = [("list", b"]"), ("list1", b"]K\x01a"), ("dict", b"}"), ("dict1", b"}K\x01K\x02s"),
            ("bytearray", b"\x96" + _st.pack("<Q", 2) + b"ab"),
            ("cyclic-dict", b"}q\x09K\x01h\x09s"), ("dict-in-own-list", b"}q\x08K\x01]h\x08as")]
    wrap = {"tuple": lambda x: x + b"\x85", "tuple2": lambda x: b"K\x01" + x + b"\x86",
            "call": lambda x: b"cm\nC\n" + x + b"\x85R", "ref": lambda x: x + b"Q"}
    out = []
    # wide containers: the unhashable object at every position of a tuple / argument list of 2..17 items
    for n in (2, 3, 8, 9, 10, 16, 17):
        for pos in sorted(set([0, 1, n // 2, n - 2, n - 1])):
            for name, prog in (base[0], base[4]):
                items = b"".join(prog if j == pos else b"K" + bytes([j]) for j in range(n))
                out.append(("%s@tuple%d[%d]" % (name, n, pos), b"(" + items + b"t"))
                out.append(("%s@call%d[%d]" % (name, n, pos), b"cm\nC\n(" + items + b"tR"))
    for name, prog in base:
        out.append((name + "@0", prog))
        for depth in (1, 2, 3):
            for ws in itertools.product(wrap, repeat=depth):
                if depth == 3 and name not in ("list", "bytearray", "cyclic-dict"):
                    continue
                x = prog
                for w in ws:
                    x = wrap[w](x)
                out.append((name + "@" + ">".join(ws), x))
    # deep nesting: the unhashable object 5 .. 120 wrappers down (one kind of wrapper, and the kinds in rotation)
    names = list(wrap)
    for depth in (5, 9, 15, 16, 17, 18, 31, 33, 64, 120):
        for name, prog in (base[0], base[4], base[3]):
            for style in ("tuple", "ref", "call", "mix"):
                x = prog
                for d in range(depth):
                    x = wrap[names[d % len(names)] if style == "mix" else style](x)
                out.append(("%s@%s^%d" % (name, style, depth), x))
    return out

def deep_unhashable_tokens():
    """value tokens for the Dict API: an unhashable object under 5 .. 120 Tuple / Ref / Call wrappers"""
    out = []
    for depth in (5, 15, 16, 17, 18, 33, 64, 120):
        for leaf in ("l[ ]", "a:61", "m{ }"):
            for style in ("t", "r", "c", "mix"):
                x = leaf
                for d in range(depth):
                    k = "trc"[d % 3] if style == "mix" else style
                    x = {"t": "t( %s )", "r": "R( %s )", "c": "C( g:6d:43 t( %s ) )"}[k] % x
                out.append(x)
    return out

@check("C17")
def c17(res, rng, tier):
    # ---- Decode: every opcode that inserts keys
    progs = []
    for name, key in unhashable_key_programs():
        progs.append((name + " DICT", b"(" + key + b"Nd."))
        progs.append((name + " DICT 2nd", b"(K\x05N" + key + b"Nd."))
        progs.append((name + " SETITEM", b"}" + key + b"Ns."))
        progs.append((name + " SETITEMS", b"}(" + key + b"Nu."))
        progs.append((name + " SETITEMS 2nd", b"}(K\x05N" + key + b"Nu."))
        progs.append((name + " nested SETITEM", b"]}" + key + b"Nsa."))
    # default map mode only: tuples (hashable in Python) cannot be Go map keys
    tuple_keys = [b")", b"K\x01\x85", b"K\x01K\x02\x86", b"(K\x01S'a'\nt", b"cm\nC\n)R", b"K\x01\x85Q"]
    tprogs = []
    for key in tuple_keys:
        tprogs += [b"(" + key + b"Nd.", b"}" + key + b"Ns.", b"}(" + key + b"Nu."]
    lines, meta = [], []
    for name, p in progs:
        for pd, su in (("0", "0"), ("1", "0"), ("1", "1"), ("0", "1")):
            lines.append("dec %s %s 0 %s" % (pd, su, p.hex())); meta.append((name, p, pd, "any"))
    for p in tprogs:
        lines.append("dec 0 0 0 %s" % p.hex()); meta.append(("tuple-key", p, "0", "maponly"))
        lines.append("dec 1 0 0 %s" % p.hex()); meta.append(("tuple-key", p, "1", "dictok"))
    impl = C.implrun(lines)
    model = C.modelrun(lines)
    from props import parts, classes
    for i, (io, mo) in enumerate(zip(impl, model)):
        name, p, pd, kind = meta[i]
        first = parts(io)[0]
        if kind in ("any", "maponly"):
            if first != "err other":
                res.violation("unhashable dict key (%s, PyDict=%s) gives %r instead of an error" % (name, pd, first[:100]),
                              {"kind": "impl", "input_hex": p.hex(), "pydict": pd, "observed": io[:300],
                               "cmd": "echo 'dec %s 0 0 %s' | harness/go/implrun" % (pd, p.hex())})
                continue
        else:
            if not first.startswith("ok "):
                res.violation("hashable tuple-like key rejected in PyDict mode: %r" % first[:100],
                              {"kind": "impl", "input_hex": p.hex(), "pydict": pd, "observed": io[:300]})
        if classes(io) != classes(mo):
            res.violation("correspondence: model %s vs implementation %s" % (classes(mo)[:3], classes(io)[:3]),
                          {"kind": "correspondence", "input_hex": p.hex(), "pydict": pd, "model": mo[:300], "impl": io[:300]},
                          found_input=False)
    # ---- direct API: Get / Set / Del with an unhashable key on Dicts of several sizes
    alines, ameta = [], []
    wide = ["t( " + " ".join("l[ ]" if j == pos else "i:%d" % j for j in range(n)) + " )"
            for n in (8, 9, 10, 17) for pos in (0, n - 2, n - 1)]
    for size in (0, 1, 7, 8, 9, 100):
        fill = " ".join("S i:%d i:%d" % (j, j * j) for j in range(size))
        for u in UNHASHABLE + wide + (deep_unhashable_tokens() if size in (0, 9) else []):
            for op in ("G %s" % u, "S %s i:0" % u, "D %s" % u):
                alines.append(("dict %s L I %s L I" % (fill, op)).replace("  ", " "))
                ameta.append((size, u, op[0]))
    aimpl = C.implrun(alines)
    amodel = C.modelrun(alines)
    for i, (io, mo) in enumerate(zip(aimpl, amodel)):
        size, u, op = ameta[i]
        ip = io.split(" | ")
        # ... L I <op> L I
        opres, after, before = ip[-3], ip[-2:], ip[-5:-3]
        if opres != op + ":unhashable":
            res.violation("Dict.%s with unhashable key %s on a Dict of %d entries: %s (expected panic 'unhashable type:')"
                          % ({"G": "Get", "S": "Set", "D": "Del"}[op], u, size, opres[:120]),
                          {"kind": "impl", "history": alines[i][:3000], "observed": opres[:300],
                           "cmd": "echo '%s' | harness/go/implrun" % alines[i][:300]})
            continue
        elif after != before:
            res.violation("Dict contents changed by a call that panicked with an unhashable key",
                          {"kind": "impl", "history": alines[i][:3000], "before": before, "after": after})
        md = split3(mo)[0]
        if md != io:
            res.violation("correspondence: Dict model %s vs implementation %s" % (md.split(" | ")[-3:], ip[-3:]),
                          {"kind": "correspondence", "history": alines[i][:2000], "model": md[-300:], "impl": io[-300:]}, found_input=False)
    # the zero-value Dict (a Dict field nobody initialised) is a Dict state too: Get / Del reject unhashable
    # keys on it like on any other, and treat hashable keys as absent
    zlines = ["dict Z G %s D %s L" % (u, u) for u in UNHASHABLE + wide] + ["dict Z G %s D %s L" % (k, k) for k in ALPHA10]
    zimpl = C.implrun(zlines)
    for zl, zo in zip(zlines, zimpl):
        unh = zl.split()[3] not in ALPHA10 and not any(zl.split()[3:][:len(k.split())] == k.split() for k in ALPHA10)
        want = "Z:ok | G:unhashable | D:unhashable | L:0" if unh else "Z:ok | G:none | D:ok | L:0"
        if zo != want:
            res.violation("zero-value Dict: %s, expected %s" % (zo[:160], want),
                          {"kind": "impl", "history": zl[:1000], "observed": zo[:300], "cmd": "echo '%s' | harness/go/implrun" % zl[:400]})
    res.coverage.update({
        "zero_value_dict_calls": len(zlines),
        "evaluations": len(lines) + len(alines) + len(zlines), "distinct_nontrivial": len(progs) + len(tprogs) + len(alines),
        "rule": "dict-building programs with an unhashable object (list, dict, bytearray) at depth 0..3 inside Tuple / Call args / Ref id x {DICT, SETITEM, SETITEMS, second pair, nested} x 4 configs; tuple keys in map mode; the unhashable object at every position of Tuples / argument lists of 2..17 items; direct Get/Set/Del with 16 + 12 (wide tuples) unhashable keys on Dicts of 0,1,7,8,9,100 entries with contents compared before/after",
        "programs": len(lines) + len(alines), "disagreements_checked": len(lines) + len(alines)})
    res.samples = [{"program_hex": meta[i][1].hex(), "impl": impl[i][:100]} for i in (0, 5, 40)] + \
                  [{"history": alines[i][-80:], "impl": aimpl[i][-120:]} for i in (0, 50)]
