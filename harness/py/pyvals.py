"""The SPECIFICATION side in real CPython: parse the harness value syntax into Python objects
(documented type table of doc.go), so that Python's own == / hash / pickle decide."""
import struct

class Py2Str:
    """A Python-2 byte string (ByteString).  og-rek documents it as equal to both the str and
    the bytes of the same content (utf-8 / raw bytes)."""
    def __init__(self, b): self.b = bytes(b)
    def __eq__(self, o):
        if isinstance(o, Py2Str): return self.b == o.b
        if isinstance(o, bytes): return self.b == o
        if isinstance(o, str): return self.b == o.encode("utf-8", "surrogateescape")
        return NotImplemented
    def __ne__(self, o):
        r = self.__eq__(o)
        return r if r is NotImplemented else not r
    def __hash__(self): return hash(self.b)
    def __repr__(self): return "Py2Str(%r)" % self.b

class Global:
    def __init__(self, m, n): self.m, self.n = m, n
    def __eq__(self, o): return isinstance(o, Global) and (self.m, self.n) == (o.m, o.n)
    def __hash__(self): return hash(("G", self.m, self.n))
    def __repr__(self): return "Global(%r,%r)" % (self.m, self.n)

class Call:
    def __init__(self, g, args): self.g, self.args = g, args
    def __eq__(self, o): return isinstance(o, Call) and self.g == o.g and self.args == o.args
    def __hash__(self): return hash(("C", self.g, self.args))
    def __repr__(self): return "Call(%r,%r)" % (self.g, self.args)

class PRef:
    def __init__(self, pid): self.pid = pid
    def __eq__(self, o): return isinstance(o, PRef) and self.pid == o.pid
    def __hash__(self): return hash(("R", self.pid))
    def __repr__(self): return "PRef(%r)" % (self.pid,)

class User:
    def __init__(self, tag): self.tag = tag
    def __eq__(self, o): return isinstance(o, User) and self.tag == o.tag
    def __hash__(self): return hash(("U", self.tag))
    def __repr__(self): return "User(%r)" % self.tag

class _Nil:
    def __repr__(self): return 'NIL'
NIL = _Nil()

def f64(hexs): return struct.unpack(">d", bytes.fromhex(hexs.rjust(16, "0")))[0]
def f32(hexs): return struct.unpack(">f", bytes.fromhex(hexs.rjust(8, "0")))[0]

def gostr(b):
    """a Go string is text: UTF-8, invalid bytes preserved"""
    return b.decode("utf-8", "surrogateescape")

class P:
    def __init__(self, toks): self.t, self.i = toks, 0
    def next(self):
        x = self.t[self.i]; self.i += 1; return x
    def peek(self): return self.t[self.i] if self.i < len(self.t) else ""
    def until(self, close):
        l = []
        while self.peek() != close: l.append(self.value())
        self.next(); return l
    def value(self):
        t = self.next()
        if t == "N": return None
        if t == "NIL": return NIL
        if t == "T": return True
        if t == "F": return False
        for pfx in ("i:", "i8:", "i16:", "i32:", "i0:", "u:", "u8:", "u16:", "u32:", "u0:", "L:"):
            if t.startswith(pfx): return int(t[len(pfx):])
        if t.startswith("f32:"): return f32(t[4:])
        if t.startswith("f:"): return f64(t[2:])
        if t.startswith("x32:"):
            a, b = t[4:].split(","); return complex(f32(a), f32(b))
        if t.startswith("x:"):
            a, b = t[2:].split(","); return complex(f64(a), f64(b))
        if t.startswith("s:"): return gostr(bytes.fromhex(t[2:]))
        if t.startswith("z:"): return Py2Str(bytes.fromhex(t[2:]))
        if t.startswith("b:"): return bytes.fromhex(t[2:])
        if t.startswith("a:"): return bytearray(bytes.fromhex(t[2:]))
        if t.startswith("U:"): return User(int(t[2:]))
        if t.startswith("g:"):
            _, m, n = t.split(":"); return Global(gostr(bytes.fromhex(m)), gostr(bytes.fromhex(n)))
        if t == "l[": return self.until("]")
        if t == "tnil": return ()
        if t == "t(": return tuple(self.until(")"))
        if t in ("m{", "d{"):
            l = self.until("}")
            return {l[i]: l[i + 1] for i in range(0, len(l) - 1, 2)}
        if t == "C(":
            g = self.value(); a = self.value(); self.next(); return Call(g, a)
        if t == "R(":
            p = self.value(); self.next(); return PRef(p)
        raise ValueError("bad token " + t)

def parse(s):
    return P(s.split()).value()

def parse_two(s):
    p = P(s.split())
    return p.value(), p.value()

def py_eq(a, b):
    try:
        return bool(a == b)
    except Exception:
        return False
