"""C05 (fuzz invariant), C14 (chunking), C18 (persistent-reference hooks), C20 (concurrency)."""
import os, re, struct, subprocess
import common as C
import genprog as G
import encgen as E
import pyref as R
from props import (check, parts, classes, strip_model, decoder_domain, dec_lines, gen_pickles, kept_corpus,
                   CONFIGS, tag_hist, valid_pickles, model_ok_input)
from props_enc import enc_obs, run_enc, nan_class, enc_values, kinds_hist, LAST_ENV

def hex_to_dec_longs(dump):
    def f(m):
        s = m.group(1)
        return "L:%d" % (-int(s[1:], 16) if s.startswith("-") else int(s, 16))
    return re.sub(r"\bL:(-?[0-9a-f]+)\b", f, dump)

BYTES_CALL = re.compile(r"C\( g:(5f5f6275696c74696e5f5f|6275696c74696e73):(627974656172726179|6279746573) ")

# =============================================================================================
# C05 — every decoded value re-encodes at every protocol and decodes back to itself
# =============================================================================================
@check("C05")
def c05(res, rng, tier):
    dom, hist = decoder_domain(rng, tier, "C05", scale=0.3 if tier == "quick" else 1.0, sweep=False)
    r = rng.fork("sweep")
    dom += [("sweep", d) for d in G.stack_sweep() if r.below(40 if tier == "quick" else 4) == 0]
    # bytearray / bytes reached through the REDUCE forms and followed by other payloads
    extra = [b"\x80\x03cbuiltins\nbytearray\nC\x06abcdef\x85RX\x02\x00\x00\x00xy\x86.",
             b"c__builtin__\nbytearray\nC\x06abcdef\x85RU\x02xy\x86.",
             b"(\x96\x06\x00\x00\x00\x00\x00\x00\x00abcdefC\x02xy\x96\x01\x00\x00\x00\x00\x00\x00\x00zl.",
             b"(c_codecs\nencode\nX\x03\x00\x00\x00abcX\x06\x00\x00\x00latin1\x86R\x96\x03\x00\x00\x00\x00\x00\x00\x00xyzU\x01qt."]
    # a list appended to an earlier snapshot of itself (DUP / memo copy of the slice header, same backing array):
    # cyclic in Python, a finite tree in Go - it must re-encode like any other value
    for n in range(1, 10):
        items = b"".join(b"K" + bytes([i]) + b"a" for i in range(n))
        extra += [b"]" + items + b"2a.", b"]q\x00" + items + b"h\x00a.", b"]" + items + b"2\x85a.", b"]" + items + b"22\x86a.",
                  b"](" + b"".join(b"K" + bytes([i]) for i in range(n)) + b"e2(K\x09" + b"2e.", b"]" + items + b"2a2a."]
    dom += [("extra", d) for d in extra]
    # wide results: thousands of elements in one list / tuple / dict / nested pairs (node count, not depth)
    import struct as _st
    wide = [b"](" + b"K\x01" * 6000 + b"e.", b"(" + b"K\x02" * 7000 + b"t.",
            b"}(" + b"".join(b"M" + _st.pack("<H", i) + b"N" for i in range(500)) + b"u.",
            b"](" + b"K\x01K\x02\x86" * 3000 + b"e.", b"](" + b"]" * 5600 + b"e.",
            b"\x80\x02](" + b"".join(b"X\x02\x00\x00\x00ab" for i in range(5200)) + b"e."]
    dom += [("wide", d) for d in wide]
    lines, meta = dec_lines(dom)
    impl = C.implrun(lines)
    model = C.modelrun(lines)
    elines, emeta = [], []
    ndec = 0
    for i, io_ in enumerate(impl):
        tag, d, pd, su = meta[i]
        first = parts(io_)[0]
        if not first.startswith("ok ") or first == "ok TOOBIG":
            continue
        dump = first[3:]
        if " ^" in " " + dump or "U:" in dump or "UNDOCUMENTED" in dump:
            continue                      # cyclic results have no finite re-encoding
        if BYTES_CALL.search(dump):
            continue                      # outside the statement by design
        if len(dump) > (20000 if tag != "wide" else 400000):
            continue
        ndec += 1
        toks = hex_to_dec_longs(dump)
        for p in range(6):
            elines.append("enc %d %s - %s" % (p, su, toks)); emeta.append((i, p, dump))
    eimpl, emodel = run_enc("C05", elines)
    # the same chain on the decoded object itself, in one process (the values above are rebuilt from their dumps,
    # which forgets what the object shares with others - backing arrays, pointers): same outcome, same bytes
    first_of = {}
    for j, (i, p, dump) in enumerate(emeta):
        first_of.setdefault(i, j)
    chain_in = sorted(first_of)
    chain_out = C.implrun(["rechain %s %s %s" % (meta[i][2], meta[i][3], meta[i][1].hex()) for i in chain_in])
    for i, co in zip(chain_in, chain_out):
        ps = co.split(" | ")
        if len(ps) != 6:
            continue
        for p in range(6):
            cls, hexb, _ = enc_obs(eimpl[first_of[i] + p])
            want = ("ok " + hexb) if cls == "ok" else cls
            got = ps[p]
            if cls == "ok" and got.startswith("ok "):
                import pkl
                same = got == want or pkl.canon(bytes.fromhex(got[3:])) == pkl.canon(bytes.fromhex(hexb))
            else:
                # which of several documented limitations is met first depends on map iteration order
                doc = ("err p0persid", "err p0unicode", "err p0123global")
                same = got.split(" ")[0] == want.split(" ")[0] and (not got.startswith("err") or got == want or (got in doc and want in doc))
            if not same:
                res.violation("re-encoding the decoded object itself at protocol %d gives %s, a copy of the same value gives %s"
                              % (p, got[:120], want[:120]),
                              {"kind": "impl", "input_hex": meta[i][1].hex(), "pydict": meta[i][2], "strict": meta[i][3], "protocol": p,
                               "decoded_object": got[:600], "rebuilt_copy": want[:600],
                               "cmd": "echo 'rechain %s %s %s' | harness/go/implrun" % (meta[i][2], meta[i][3], meta[i][1].hex()[:400])})
                break
    from props_enc import LAST_ENV
    # theorem redecode (Proofs/RoundTrip.v): inside its fragment the model's decode -> reify -> encode
    # chain must produce the bytes the implementation produces for the value it decoded
    chain = C.modelrun(["reenc %d %s %s %s" % (emeta[j][1], meta[emeta[j][0]][2], meta[emeta[j][0]][3], meta[emeta[j][0]][1].hex())
                        for j in range(len(elines))], env=LAST_ENV["C05"])
    # theorem C05_redecode_with_maps (Proofs/ReflectFacts.v + RoundTripMaps.v): norm2 of a reflection of the
    # model's result - maps iterated in reverse stored order - is what the second Decode must return
    chain2 = C.modelrun(["reenc2 %d %s %s %s" % (emeta[j][1], meta[emeta[j][0]][2], meta[emeta[j][0]][3], meta[emeta[j][0]][1].hex())
                         for j in range(len(elines))], env=LAST_ENV["C05"])
    in_fragment = 0
    in_fragment2 = 0
    dlines, dmeta = [], []
    for j, eo in enumerate(eimpl):
        i, p, dump = emeta[j]
        tag, d, pd, su = meta[i]
        cls, hexb, attrs = enc_obs(eo)
        if chain[j] != "NA":
            in_fragment += 1
            if chain[j] != "ok " + hexb:
                res.violation("theorem redecode: model chain decode->reify->encode gives %s, implementation re-encodes to %s %s (protocol %d)"
                              % (chain[j][:120], cls, hexb[:120], p),
                              {"kind": "correspondence", "theorem": "RoundTrip.redecode / Norm.reify", "input_hex": d.hex(), "pydict": pd, "strict": su,
                               "protocol": p, "model": chain[j][:600], "impl": eo[:600]})
        if cls in ("err p0persid", "err p0unicode") and p == 0: continue
        if cls == "err p0123global" and p <= 3: continue
        if cls != "ok":
            res.violation("a decoded value does not re-encode at protocol %d: %s" % (p, cls),
                          {"kind": "impl", "input_hex": d.hex(), "pydict": pd, "strict": su, "decoded": dump[:600], "observed": eo[:300],
                           "cmd": "echo '%s' | harness/go/implrun" % elines[j][:600]})
            continue
        cm, bm, _ = enc_obs(emodel[j])
        import pkl
        if cm != "ok" or (bm != hexb and pkl.canon(bytes.fromhex(bm)) != pkl.canon(bytes.fromhex(hexb))):
            res.violation("correspondence: encoder model %s vs implementation on a decoded value" % cm,
                          {"kind": "correspondence", "case": elines[j][:600], "model": emodel[j][:400], "impl": eo[:400]}, found_input=False)
        dlines.append("dec %s %s 0 %s" % (pd, su, hexb)); dmeta.append((j, i, p, dump))
    dimpl = C.implrun(dlines)
    dmodel = C.modelrun(dlines)
    nontriv = 0
    for k, do in enumerate(dimpl):
        j, i, p, dump = dmeta[k]
        tag, d, pd, su = meta[i]
        ps = parts(do)
        got = ps[0][3:] if ps[0].startswith("ok ") else ps[0]
        if len(ps) != 2 or ps[1] != "err eof" or nan_class(got, p) != nan_class(dump, p):
            res.violation("decoded value re-encoded at protocol %d decodes to something else: first %s, then %s" % (p, dump[:160], got[:160]),
                          {"kind": "impl", "input_hex": d.hex(), "pydict": pd, "strict": su, "protocol": p,
                           "first": dump[:800], "second": do[:800], "reencoded_hex": dlines[k].split()[-1][:2000],
                           "cmd": "echo '%s' | harness/go/implrun" % dlines[k][:400]})
            continue
        if chain2[j] not in ("NA", "ok TOOBIG") and "#staleappend" not in model[i]:
            in_fragment2 += 1
            if chain2[j] != "ok " + got:
                res.violation("theorem C05_redecode_with_maps: norm2 of the reflected first result predicts %s, the implementation's second Decode returns %s (protocol %d)"
                              % (chain2[j][:160], got[:160], p),
                              {"kind": "correspondence", "theorem": "C05_redecode_with_maps / ReflectFacts.reflect_norm2", "input_hex": d.hex(),
                               "pydict": pd, "strict": su, "protocol": p, "model": chain2[j][:800], "impl": do[:800]})
        if strip_model(dmodel[k]) != do and "#staleappend" not in dmodel[k]:
            res.violation("correspondence: decoder model vs implementation on re-encoded bytes",
                          {"kind": "correspondence", "case": dlines[k][:600], "model": dmodel[k][:400], "impl": do[:400]}, found_input=False)
        nontriv += 1
    res.coverage.update({
        "evaluations": len(lines) + len(elines) + len(dlines), "distinct_nontrivial": nontriv,
        "rule": "the C04 input stream (corpus, grammar pickles, mutations, soup, bombs, short sweep programs) x 4 configs; every successful first result (acyclic, below the dump budget, without a call of the bytearray / bytes builtins) is re-encoded at protocols 0..5 with the matching StrictUnicode and decoded again with the same configuration; NaNs are one class at protocol 0; the three documented limitations are allowed errors; non-trivial = completed round trips",
        "programs": len(lines), "disagreements_checked": len(elines) + len(dlines), "successful_decodes": ndec, "reencodings_inside_theorem_fragment": in_fragment, "second_decodes_predicted_by_maps_theorem": in_fragment2, "reencodings_total": len(elines), "input_tags": tag_hist(meta)})
    res.samples = [{"input_hex": meta[emeta[j][0]][1].hex()[:80], "protocol": emeta[j][1], "value": emeta[j][2][:120]}
                   for j in range(0, len(elines), max(1, len(elines) // 6))]

# =============================================================================================
# C14 — decoding does not depend on how the Reader delivers the bytes
# =============================================================================================
def schedules(rng, n):
    out = ["1*", "1*E", "2*", "3,1*", "0,1*", "0,0,5*"]
    if n <= 200:
        out += ["%d" % k for k in range(1, n)]                 # every single split point
        out += ["0,%d" % k for k in range(1, n, max(1, n // 12))]
        out += ["%dE" % k for k in range(1, n, max(1, n // 12))]
    else:
        out += ["%d" % k for k in sorted(set([1, 2, 7, n // 2, n - 1, 4095, 4096, 4097, 8191, 8192]) ) if 0 < k < n]
        out += ["4096*", "4095*", "4097*", "100*E"]
    for _ in range(8):
        k = 1 + rng.below(6)
        out.append(",".join(str(rng.below(max(2, n // k + 2))) for _ in range(k)) + ",7*")
    return out

@check("C14")
def c14(res, rng, tier):
    q = tier == "quick"
    dom, hist = decoder_domain(rng, tier, "C14")
    r = rng.fork("sel")
    sel = [(t, d) for (t, d) in dom if t in ("kept", "gen", "bomb", "sep")]
    sel += [(t, d) for (t, d) in dom if t in ("corpus", "mut", "soup") and r.below(3 if q else 1) == 0]
    sel += [(t, d) for (t, d) in dom if t == "sweep" and r.below(40) == 0]
    cand, _ = valid_pickles(rng.fork("valid"), tier)
    sel += [("long", d) for d in cand if len(d) > 4096]
    # every counted-read opcode with its payload straddling any split, and streams of pickles
    special = [b"\x80\x02\x8a\x06\x00\x00\x00\x00\x00\x01.", b"J\x01\x02\x03\x04.", b"M\x01\x02.", b"G\x40\x09\x21\xfb\x54\x44\x2d\x18.",
               b"T\x05\x00\x00\x00hello.", b"U\x05hello.", b"X\x05\x00\x00\x00hello.", b"\x8c\x05hello.", b"B\x05\x00\x00\x00hello.", b"C\x05hello.",
               b"\x96\x05\x00\x00\x00\x00\x00\x00\x00hello.", b"\x95\x02\x00\x00\x00\x00\x00\x00\x00N.", b"r\x01\x00\x00\x00", b"Nr\x01\x00\x00\x00j\x01\x00\x00\x00\x86.",
               b"I12345\n.", b"L12345L\n.", b"F1.5\n.", b"S'hello'\n.", b"Vhello\n.", b"cmod\nname\n.", b"Ppid\n.", b"Np12\ng12\n\x86.",
               b"\x8a\xff" + b"\x01" * 255 + b".", b"K\x01.K\x02.K\x03.", b"I1\n.I2\n.", b"\x8a\x02\x01\x02.\x8a\x02\x03\x04."]
    sel += [("special", d) for d in special]
    lines, meta = [], []
    base_lines = []
    for tag, d in sel:
        scheds = schedules(r, len(d))
        cfgs = CONFIGS if tag in ("special", "kept") else [CONFIGS[r.below(4)]]
        for pd, su in cfgs:
            base_lines.append("dec %s %s 0 %s" % (pd, su, d.hex()))
            for s in scheds:
                lines.append("decchunk %s %s 0 %s %s" % (pd, su, s, d.hex())); meta.append((len(base_lines) - 1, tag, d, pd, su, s))
    base = C.implrun(base_lines)
    impl = C.implrun(lines)
    model = C.modelrun(base_lines)
    nontriv = 0
    for i, io_ in enumerate(impl):
        b, tag, d, pd, su, s = meta[i]
        if io_ != base[b]:
            res.violation("chunked delivery (schedule %s) changes the result: %s, single Read: %s" % (s, io_[:140], base[b][:140]),
                          {"kind": "impl", "input_hex": d.hex(), "pydict": pd, "strict": su, "schedule": s,
                           "chunked": io_[:600], "single_read": base[b][:600], "cmd": "echo '%s' | harness/go/implrun" % lines[i][:600]})
        else:
            nontriv += 1
    # theorem C14_chunking (Proofs/BufioFacts.v): the reader programs on the bufio machine (L1) = on the
    # flat input.  The L1 machine itself is run here on the same schedules and compared with the
    # implementation's chunked runs.
    l1_idx = [i for i in range(len(lines)) if len(meta[i][2]) <= 6000 and "#staleappend" not in model[meta[i][0]]]
    step = max(1, len(l1_idx) // (3000 if q else 40000))
    l1_idx = l1_idx[::step]
    l1 = C.modelrun([lines[i] for i in l1_idx])
    for j, i in enumerate(l1_idx):
        if strip_model(l1[j]) != impl[i]:
            b, tag, d, pd, su, sc = meta[i]
            res.violation("bufio-level model (L1) vs implementation on schedule %s: model %s, implementation %s" % (sc, l1[j][:120], impl[i][:120]),
                          {"kind": "correspondence", "theorem": "C14_chunking / Model/Bufio.v", "case": lines[i][:800], "model": l1[j][:400], "impl": impl[i][:400]}, found_input=False)
            break
    mism = 0
    for b, bo in enumerate(base):
        mo = model[b]
        if "#staleappend" in mo: continue
        if strip_model(mo) != bo:
            mism += 1
            if mism <= 5:
                res.violation("correspondence: stream-level decoder model vs implementation (single Read)",
                              {"kind": "correspondence", "case": base_lines[b][:600], "model": mo[:400], "impl": bo[:400]}, found_input=False)
    res.coverage.update({
        "evaluations": len(lines) + len(base_lines), "distinct_nontrivial": nontriv,
        "rule": "valid and invalid inputs (kept failures, grammar pickles, length bombs, samples of corpus / mutations / soup / sweep, text lines > 4096 bytes, every counted-read opcode, streams of pickles) x schedules {1-byte, 1-byte with final data+EOF, 2-byte, zero-length reads first, every single split point for inputs <= 200 bytes, zero-then-split, split with data+EOF, splits at 4095/4096/4097/8191/8192, fixed 4095/4096/4097-byte chunks, 8 random multi-way splits}; the whole (value, error) sequence of successive Decode calls compared with the single-Read run; non-trivial = chunked runs equal to the single-Read run",
        "programs": len(lines), "disagreements_checked": len(lines), "inputs": len(sel), "l1_machine_runs_compared": len(l1_idx), "input_tags": tag_hist([(m[1],) for m in meta])})
    res.samples = [{"input_hex": meta[i][2].hex()[:80], "schedule": meta[i][5], "impl": impl[i][:120]} for i in range(0, len(lines), max(1, len(lines) // 6))]

# =============================================================================================
# C18 — persistent-reference hooks
# =============================================================================================
def count_getref(n, su, proto):
    """(calls, hits) the encoder must make: every pointer-to-struct met in traversal order"""
    calls = hits = 0
    def walk(n):
        nonlocal calls, hits
        k = n[0]
        if k == "big" and not n[2]:
            calls += 1                   # *big.Int is a pointer to a struct
        elif k == "tuple":
            for x in n[1]: walk(x)
        elif k == "list":
            for x in n[2]: walk(x)
        elif k == "map":
            for a, b in n[2]: walk(a); walk(b)
        elif k == "call":
            for x in n[3]: walk(x)
        elif k == "ref":
            if proto >= 1: walk(n[1])
        elif k in ("struct", "zoo"):
            for nm, v in E.struct_fields(n): walk(v)
        elif k == "ptr":
            if E.is_struct(n[1]):
                calls += 1
                if n[2] is not None:
                    hits += 1
                    if proto >= 1: walk(n[2])
                    return
            walk(n[1])
    walk(n)
    return calls, hits

def ref_values(rng, n):
    g = E.ValGen(rng)
    S = lambda name, v: ("struct", [(name, b"", v)])
    one = ("int", "i", 1)
    out = []
    pids = [("str", "s", b"oid1"), ("str", "s", b"o\nid"), ("tuple", [("str", "s", b"type"), ("int", "i", 7)]), ("int", "i", 5),
            ("tuple", [("tuple", [("none",)]), ("str", "z", b"x")]), ("str", "z", b"bytestr"), ("str", "s", "é".encode()), ("none",)]
    for pid in pids:
        obj = S(b"Oid", ("str", "s", b"x"))
        out += [("ptr", obj, pid), ("list", "l", [("ptr", obj, pid), one, ("ptr", S(b"Other", one), None)]),
                ("ptr", ("ptr", obj, pid), None),                                    # **T: the inner pointer must be offered to the hook
                ("ptr", ("ptr", ("ptr", obj, pid), None), None),
                ("map", "m", [(("str", "s", b"k"), ("ptr", obj, pid))]), ("struct", [(b"F", b"", ("ptr", obj, pid))]),
                ("tuple", [("ptr", obj, pid), ("ptr", S(b"B", one), ("str", "s", b"second"))]),
                ("ptr", ("struct", [(b"In", b"", ("ptr", obj, pid))]), None),          # unmapped object holding a mapped one
                ("ptr", ("struct", [(b"In", b"", ("ptr", obj, pid))]), ("str", "s", b"outer")),   # mapped: inner never visited
                ("call", b"m", b"C", [("ptr", obj, pid)]), ("ref", ("ptr", obj, pid)),
                ("map", "d", [(("int", "i", 1), ("ptr", obj, pid))])]
    for _ in range(n):
        out.append(g.node())
    return out

def progs_of_one_pickle(p):
    """[p] when p is a single pickle (one STOP at the end, as far as pickletools can tell), else []"""
    import pickletools
    try:
        ops = list(pickletools.genops(p))
        return [p] if ops and ops[-1][0].name == "STOP" and ops[-1][2] == len(p) - 1 else []
    except Exception:
        return []

@check("C18")
def c18(res, rng, tier):
    q = tier == "quick"
    # ---- Decode side: PersistentLoad is called once per persistent-reference opcode, in order
    progs, hist = gen_pickles(rng.fork("gen"), 1200 if q else 20000)
    progs = [p for p in progs if b"Q" in p or b"P" in p]
    progs += [b"Pabc\n.", b"K\x01Q.", b"(Pa\nPb\nK\x01QPc\nt.", b"]Pa\naK\x05Qa(Pb\nPc\ne.", b"}Pk\nPv\ns.", b"Pa\nPb\n\x86Q.", b"K\x01QQQ.",
              b"Pa\n.Pb\n.Pc\n.", b"(Pa\nPb\nPc\nPd\nPe\nPf\nl.", b"(Q.", b"K\x01(Q.", b"]Q.", b"P\n.", b"Pa\nq\x00h\x00h\x00\x87.",
              # one persistent id in several reference opcodes (an object reachable twice; two pickles of one stream; ids that
              # print alike: 1, 1.0, 1L, '1', True): one hook call per opcode, never an earlier answer reused
              b"(Pa\nPa\nt.", b"(Pa\nPb\nPa\nPa\nt.", b"(K\x01QK\x01Qt.", b"Pa\n.Pa\n.Pa\n.", b"K\x01Q.K\x01Q.",
              b"(K\x01QG\x3f\xf0\x00\x00\x00\x00\x00\x00Q\x8a\x01\x01QI01\nQX\x01\x00\x00\x001QP1\nt.",
              b"(K\x01K\x02\x86QK\x01K\x02\x86Qt.", b"]q\x00(Pa\nPa\neh\x00Pa\n\x86.", b"}(Pa\nPa\nPb\nPa\nu.", b"(NQNQ)Q)Qt."]
    lines, meta = [], []
    for p in progs:
        for pd, su in CONFIGS:
            for lm in "12346":
                lines.append("dec %s %s %s %s" % (pd, su, lm, p.hex())); meta.append((p, pd, su, lm))
    impl = C.implrun(lines)
    model = C.modelrun(lines)
    nontriv = 0
    refcache = {}
    for i, io_ in enumerate(impl):
        p, pd, su, lm = meta[i]
        body, _, log = io_.partition(" #log ")
        calls = [c for c in log.split(" ; ") if c] if log else []
        # the reference: CPython's persistent_load call sequence on the same stream
        key = (p, su, lm)
        if key not in refcache:
            seq, results = [], []
            mode = lm
            class HookError(Exception): pass
            class U(R.RefUnpickler):
                def persistent_load(self, pid):
                    idx = len(seq)
                    seq.append(pid)
                    if mode == "1": return R.PRef(pid)
                    if mode == "2": return R.User(idx)
                    if mode == "3":
                        if idx % 3 == 0: return R.User(idx)
                        if idx % 3 == 1: return R.PRef(pid)
                        raise HookError()
                    if mode == "6":
                        if idx % 2 == 1: raise HookError()
                        return R.User(idx)
                    return R.User(idx) if isinstance(pid, str) else R.PRef(pid)
            import io as _io
            f = _io.BytesIO(p)
            u = U(f, su == "1")
            ok = True
            try:
                while f.tell() < len(p):
                    u.load()
            except BaseException:
                ok = False
            refcache[key] = (ok, list(seq))
        ok, seq = refcache[key]
        bad = None
        if lm in "124" and ok:
            # without failures the hook must see exactly CPython's ids, in order.  Where a Decode call of the stream
            # fails although CPython loads it (the documented map-key error of the default mode - C09's subject, not
            # C18's) the opcodes after the failure are never executed: the calls made must then be a prefix
            bps = parts(body)
            all_ok = len(bps) >= 1 and bps[-1] == "err eof" and all(x.startswith("ok") for x in bps[:-1])
            if (len(calls) != len(seq)) if all_ok else (len(calls) > len(seq)):
                bad = "PersistentLoad called %d times, the stream executes %d persistent-reference opcodes" % (len(calls), len(seq))
            else:
                def has_mutable(x, depth=0):
                    if isinstance(x, (list, dict, bytearray)): return True
                    if depth > 50: return True
                    if isinstance(x, tuple): return any(has_mutable(y, depth + 1) for y in x)
                    for attr in ("pid", "args"):
                        if hasattr(x, attr) and has_mutable(getattr(x, attr), depth + 1): return True
                    return False
                for c, pid in zip(calls, seq):
                    # an id that holds a list / dict is compared by count only: CPython's object may have been extended
                    # after the call (the reference keeps it by reference), and a list reached through the memo is the
                    # recorded finding stale_list_view (C06) - neither is about the hook
                    if has_mutable(pid):
                        continue
                    try:
                        g = R.parse_go(c)
                        if not (isinstance(g, R.PRef) and R.equiv(g.pid, pid, pd == "1")):
                            bad = "PersistentLoad called with %s, the opcode's id is %r" % (c[:80], pid)
                            break
                    except Exception:
                        pass
        if not bad and lm == "1" and "U:" in body:
            bad = "nil hook result did not keep the Ref"
        if not bad and lm == "2" and ok and re.search(r"\bR\( ", body):
            bad = "non-nil hook result did not replace the Ref"
        if not bad and lm == "6":
            # every second call returns an object together with an error: the error must abort that Decode
            # call - the calls logged for one pickle never go past a failing one, and a pickle whose last
            # logged call failed did not return a value
            first = parts(body)[0] if parts(body) else ""
            if len(calls) >= 2 and first.startswith("ok ") and len(progs_of_one_pickle(p)) == 1:
                bad = "PersistentLoad returned an object together with an error on its second call, Decode went on and returned %s" % first[:80]
        if bad:
            res.violation(bad, {"kind": "impl", "input_hex": p.hex(), "pydict": pd, "strict": su, "load_mode": lm, "observed": io_[:600],
                                "cmd": "echo '%s' | harness/go/implrun" % lines[i][:400]})
            continue
        mo = model[i]
        if "#staleappend" not in mo and strip_model(mo) != io_:
            res.violation("correspondence: model and implementation differ (values, errors or hook call log)",
                          {"kind": "correspondence", "input_hex": p.hex(), "pydict": pd, "strict": su, "load_mode": lm,
                           "model": mo[:500], "impl": io_[:500]}, found_input=False)
        else:
            nontriv += 1
    # ---- Encode side: PersistentRef is consulted for every pointer-to-struct, refs are emitted
    vals = ref_values(rng.fork("vals"), 300 if q else 5000)
    elines, emeta = [], []
    for v in vals:
        t = E.tokens(v)
        for p in range(6):
            su = "1" if (p + len(t)) % 2 else "0"
            elines.append("enc %d %s - %s" % (p, su, t)); emeta.append((v, p, su))
    eimpl, emodel = run_enc("C18", elines)
    dlines, dmeta = [], []
    for j, eo in enumerate(eimpl):
        v, p, su = emeta[j]
        cls, hexb, attrs = enc_obs(eo)
        errs = E.possible_errors(v, su == "1", p)
        if errs:
            if cls not in errs:
                res.violation("expected one of %s, Encode gives %s" % (sorted(errs), cls), {"kind": "impl", "case": elines[j][:800], "observed": eo[:300]})
            continue
        want_calls, want_hits = count_getref(v, su == "1", p)
        if cls != "ok" or attrs.get("getref") != "%d/%d" % (want_hits, want_calls):
            res.violation("PersistentRef consulted %s (hits/calls), the value holds %d/%d pointers to structs in traversal order; outcome %s"
                          % (attrs.get("getref"), want_hits, want_calls, cls),
                          {"kind": "impl", "case": elines[j][:800], "observed": eo[:400], "cmd": "echo '%s' | harness/go/implrun" % elines[j][:600]})
            continue
        cm, bm, _ = enc_obs(emodel[j])
        import pkl
        if cm != "ok" or (bm != hexb and pkl.canon(bytes.fromhex(bm)) != pkl.canon(bytes.fromhex(hexb))):
            res.violation("correspondence: encoder model vs implementation", {"kind": "correspondence", "case": elines[j][:600], "model": emodel[j][:400], "impl": eo[:400]}, found_input=False)
        # inverse hooks: decoding with a PersistentLoad that keeps the Ref shows every reference where the object was
        dlines.append("dec 0 %s 1 %s" % (su, hexb)); dmeta.append(j)
    dimpl = C.implrun(dlines)
    for k, do in enumerate(dimpl):
        j = dmeta[k]
        v, p, su = emeta[j]
        body = do.partition(" #log ")[0]
        ps = parts(body)
        try:
            want = nan_class(E.canon_dump(E.norm(v, False, su == "1", p)), p)
        except E.Unencodable:
            continue
        got = nan_class(ps[0][3:], p) if ps[0].startswith("ok ") else ps[0]
        if got != want:
            res.violation("Encode with PersistentRef then Decode with PersistentLoad does not restore the graph: got %s, want %s" % (got[:160], want[:160]),
                          {"kind": "impl", "case": elines[j][:800], "decoded": do[:600], "expected": want[:600]})
        else:
            nontriv += 1
    # the theorem (Props/C18.v C18_registry_hook): with the registry hook inv_load installed, Decode of
    # Encode's output returns hmap inv_g (norm c v); prediction, model decoder and implementation compared
    hlines = ["dec %s %s 5 %s" % ("1" if k % 2 else "0", l.split()[2], l.split()[-1]) for k, l in enumerate(dlines)]
    himpl = C.implrun(hlines)
    hmodel = C.modelrun(hlines)
    hpred = C.modelrun(["norm2h %d %s %s %s" % (emeta[j][1], "1" if k % 2 else "0", emeta[j][2], E.tokens(emeta[j][0])) for k, j in enumerate(dmeta)], env=LAST_ENV.get("C18"))
    in_fragment = 0
    for k, ho in enumerate(himpl):
        j = dmeta[k]
        if "#staleappend" not in hmodel[k] and strip_model(hmodel[k]) != ho:
            res.violation("correspondence: model and implementation differ when decoding Encode's output with the registry hook",
                          {"kind": "correspondence", "case": elines[j][:600], "dec": hlines[k][:600], "model": hmodel[k][:500], "impl": ho[:500]}, found_input=False)
            continue
        if hpred[k] == "NA" or hpred[k] == "ok TOOBIG":
            continue
        in_fragment += 1
        got = parts(ho.partition(" #log ")[0])[0]
        pj = emeta[j][1]
        if got != hpred[k] and not (got.startswith("ok ") and nan_class(got[3:], pj) == nan_class(hpred[k][3:], pj)):
            res.violation("theorem C18_registry_hook predicts %s, Decode(Encode(v)) with the registry hook gives %s" % (hpred[k][:200], got[:200]),
                          {"kind": "correspondence", "theorem": "Props/C18.v C18_registry_hook / C18_inverse_hooks_with_maps / NormMaps.norm2", "case": elines[j][:800],
                           "dec": hlines[k][:800], "predicted": hpred[k][:600], "impl": ho[:600]})
        else:
            nontriv += 1
    res.coverage.update({
        "inverse_hook_runs": len(hlines), "inverse_hook_runs_in_theorem_fragment": in_fragment,
        "evaluations": len(lines) + len(elines) + len(dlines) + len(hlines), "distinct_nontrivial": nontriv,
        "rule": "Decode: grammar programs containing PERSID / BINPERSID + hand-assembled ones (ids that are strings, ints, tuples, nested refs, MARK under BINPERSID, streams) x 4 configs x hook behaviours {keep (nil), replace, fail every third call, replace string ids only, return an object together with an error on every second call}; the call log is compared with CPython's own persistent_load call sequence on the same stream and with the model. Encode: object graphs with pointers to structs in every position (top level, **T and ***T chains, map values, struct fields, tuple / call arguments, inside unmapped and mapped objects), ids {string, multi-line string, tuple, int, nested tuple, ByteString, non-ASCII, None} x protocols 0..5; number of hook consultations and hits compared with the traversal, output decoded again with PersistentLoad; non-trivial = cases whose log / result matched",
        "programs": len(lines) + len(elines), "disagreements_checked": len(lines) + len(elines) + len(dlines)})
    res.samples = [{"case": lines[i][:100], "impl": impl[i][:140]} for i in range(0, len(lines), max(1, len(lines) // 4))] + \
                  [{"case": elines[j][:140], "impl": eimpl[j][:100]} for j in range(0, len(elines), max(1, len(elines) // 3))]

# =============================================================================================
# C20 — concurrency
# =============================================================================================
@check("C20")
def c20(res, rng, tier):
    q = tier == "quick"
    ok, log = C.build_impl(race=True)
    if not ok:
        res.violation("the race-enabled harness does not build", {"kind": "build", "log": log[-2000:]}, found_input=False)
        return
    vals = enc_values(rng.fork("vals"), tier, n_quick=120, n_thorough=2000, gate=False)
    vals += [v for v in E.gate_matrix() if v[0] in ("str", "bytes", "map", "list", "tuple", "call", "ref", "struct", "zoo", "big", "float")][::3]
    gen, hist = gen_pickles(rng.fork("gen"), 150 if q else 3000)
    r = rng.fork("conc")
    lines = []
    for v in vals:
        if E.possible_errors(v, True, 0) or E.possible_errors(v, False, 3):
            continue
        n, procs = r.choice([(2, 1), (2, 4), (8, 4), (8, 16), (64, 16)] if not q else [(2, 4), (8, 4), (8, 16), (32, 16)])
        lines.append("conc enc %d %d %d %s" % (n, procs, r.below(2), E.tokens(v)))
    for p in gen:
        n, procs = r.choice([(2, 4), (8, 4), (8, 16), (32, 16)])
        pd, su = r.choice(CONFIGS)
        lines.append("conc dec %d %d %s %s %s" % (n, procs, pd, su, p.hex()))
        lines.append("conc read %d %d %s %s %s" % (n, procs, pd, su, p.hex()))
    env = {"GORACE": "halt_on_error=1 exitcode=66"}
    exe = os.path.join(C.GOH, "implrun_race")
    # a few shards only: the point is concurrency inside each process
    out = C.run_lines(exe, lines, shards=(4 if q else 2), ulimit_stack=False, env=env, extra_args=["-timeout", "120s"])
    # A runtime crash of one process without a race report (seen under a loaded machine: several
    # race-instrumented processes with 64 goroutines each) takes all later lines of its shard with it.
    # Those lines are run again in one sequential process; only what fails again is reported.
    redo = [i for i, o in enumerate(out) if o.startswith("CRASHED") and "DATA RACE" not in o and "rc=66" not in o]
    if redo:
        again = C.run_lines(exe, [lines[i] for i in redo], shards=1, ulimit_stack=False, env=env, extra_args=["-timeout", "300s"])
        for i, a in zip(redo, again):
            out[i] = a
        res.notes.append("%d cases were re-run sequentially after a race-enabled process crashed without a race report" % len(redo))
    nontriv = 0
    for i, o in enumerate(out):
        if o in ("ok", "skip"):
            nontriv += 1
            continue
        if o.startswith("CRASHED") and "DATA RACE" not in o and i > 0 and out[i - 1].startswith("CRASHED"):
            continue          # lines after the one that stopped the process
        what = ("data race reported by the Go race detector" if "DATA RACE" in o or "rc=66" in o
                else "concurrent results differ from the sequential ones: " + o[:200])
        res.violation(what, {"kind": "impl", "case": lines[i][:800], "observed": o[:1200],
                             "cmd": "echo '%s' | GORACE=halt_on_error=1 harness/go/implrun_race" % lines[i][:600]})
        break
    res.coverage.update({
        "evaluations": len(lines), "distinct_nontrivial": nontriv,
        "rule": "race-detector build of the harness: N in {2,8,32,64} goroutines x GOMAXPROCS in {1,4,16}, each with its own Encoder (own value instance, protocol i mod 6) or its own Decoder on its own reader, or all reading one shared decoded value (dump = Len/Iter on every Dict and map, Get of every key, Encode); 8 rounds per goroutine released together; results compared with the sequential ones; non-trivial = runs without race report and with equal results",
        "programs": len(lines), "disagreements_checked": len(lines),
        "static": "Props/C20.v over Gen/Globals.v regenerated from the source"})
    res.samples = [{"case": lines[i][:160], "result": out[i][:60]} for i in range(0, len(lines), max(1, len(lines) // 5))]
