"""Shared machinery of the checks: builds, sharded runs of modelrun / implrun, evidence,
violation reporting.  Everything is rebuilt from /repo's working tree on every run."""
import fcntl, hashlib, json, os, re, subprocess, sys, time

VERIF = os.path.dirname(os.path.dirname(os.path.dirname(os.path.abspath(__file__))))
REPO = os.environ.get("VERIF_REPO", "/repo")
COQ = os.path.join(VERIF, "coq")
OCAML = os.path.join(VERIF, "ocaml")
GOH = os.path.join(VERIF, "harness", "go")
WORK = os.path.join(VERIF, ".work")
NCPU = max(1, min(16, os.cpu_count() or 1))

GOENV = dict(os.environ, GOFLAGS="-mod=mod", GOPROXY="off", GOSUMDB="off", GOTOOLCHAIN="local",
             CGO_ENABLED="0")

# ---- deterministic PRNG (SplitMix64): every random choice derives from VERIF_SEED ----------
class Rng:
    def __init__(self, seed):
        self.s = seed & 0xFFFFFFFFFFFFFFFF
    def next(self):
        self.s = (self.s + 0x9E3779B97F4A7C15) & 0xFFFFFFFFFFFFFFFF
        z = self.s
        z = ((z ^ (z >> 30)) * 0xBF58476D1CE4E5B9) & 0xFFFFFFFFFFFFFFFF
        z = ((z ^ (z >> 27)) * 0x94D049BB133111EB) & 0xFFFFFFFFFFFFFFFF
        return z ^ (z >> 31)
    def below(self, n):
        return self.next() % n if n > 0 else 0
    def choice(self, l):
        return l[self.below(len(l))]
    def chance(self, num, den):
        return self.below(den) < num
    def bytes(self, n):
        return bytes(self.below(256) for _ in range(n))
    def fork(self, tag):
        h = hashlib.sha256(("%d/%s" % (self.s, tag)).encode()).digest()
        return Rng(int.from_bytes(h[:8], "big"))

def seed():
    try:
        return int(os.environ.get("VERIF_SEED", "1"))
    except ValueError:
        return 1

def tier(argv=None):
    t = os.environ.get("VERIF_TIER", "quick")
    if argv:
        for i, a in enumerate(argv):
            if a == "--tier" and i + 1 < len(argv):
                t = argv[i + 1]
    return "thorough" if t == "thorough" else "quick"

# ---- builds ---------------------------------------------------------------------------------
def sh(cmd, cwd=None, env=None, timeout=3600, check=False):
    p = subprocess.run(cmd, shell=isinstance(cmd, str), cwd=cwd, env=env, timeout=timeout,
                       stdout=subprocess.PIPE, stderr=subprocess.STDOUT)
    out = p.stdout.decode("utf-8", "replace")
    if check and p.returncode != 0:
        raise RuntimeError("command failed: %s\n%s" % (cmd, out[-4000:]))
    return p.returncode, out

class BuildLock:
    def __enter__(self):
        os.makedirs(WORK, exist_ok=True)
        self.f = open(os.path.join(WORK, "build.lock"), "w")
        fcntl.flock(self.f, fcntl.LOCK_EX)
    def __exit__(self, *a):
        fcntl.flock(self.f, fcntl.LOCK_UN)
        self.f.close()

def newest_mtime(paths):
    m = 0
    for p in paths:
        if os.path.exists(p):
            m = max(m, os.path.getmtime(p))
    return m

def glob_v(sub):
    d = os.path.join(COQ, sub)
    return [os.path.join(d, f) for f in sorted(os.listdir(d)) if f.endswith(".v")] if os.path.isdir(d) else []

def gen_facts():
    """regenerate coq/Gen/*.v from /repo's current source (written only when changed)"""
    d = os.path.join(VERIF, "tools", "genfacts")
    rc, out = sh("go build -o genfacts . && ./genfacts %s %s" % (REPO, os.path.join(COQ, "Gen")), cwd=d, env=GOENV)
    return rc == 0, out

def build_coq():
    """Full .vo build of the development (no -vos); returns (ok, log)."""
    okg, outg = gen_facts()
    if not okg:
        return False, "genfacts failed:\n" + outg
    if not os.path.exists(os.path.join(COQ, "Makefile")):
        sh("coq_makefile -f _CoqProject -o Makefile", cwd=COQ, check=True)
    rc, out = sh("timeout 3000 make -k -j%d" % NCPU, cwd=COQ)
    return rc == 0, out

def build_model():
    """Extraction + ocamlopt of modelrun when the model changed."""
    exe = os.path.join(OCAML, "modelrun")
    srcs = glob_v("Model") + glob_v("Extract") + [os.path.join(OCAML, "main.ml")]
    if os.path.exists(exe) and os.path.getmtime(exe) >= newest_mtime(srcs):
        return True, "up to date"
    rc, out = sh("coqc -Q ../coq OgRek ../coq/Extract/Extract.v", cwd=OCAML)
    if rc != 0:
        return False, out
    rc, out2 = sh("ocamlfind ocamlopt -package str -w -a -O3 -o modelrun model.mli model.ml main.ml 2>/dev/null"
                  " || ocamlopt -w -a -o modelrun model.mli model.ml main.ml", cwd=OCAML)
    return rc == 0, out + out2

def build_impl(race=False):
    """implrun is always rebuilt from /repo's current working tree, hooks enabled."""
    sh("cp %s/go.sum %s/go.sum" % (REPO, GOH))
    gomod = open(os.path.join(GOH, "go.mod")).read()
    want = "replace github.com/kisielk/og-rek => %s" % REPO
    if want not in gomod:
        gomod = re.sub(r"replace github.com/kisielk/og-rek => \S+", want, gomod)
        open(os.path.join(GOH, "go.mod"), "w").write(gomod)
    env = dict(GOENV)
    if race:
        env["CGO_ENABLED"] = "1"
    name = "implrun_race" if race else "implrun"
    rc, out = sh("go build -tags verif %s -o %s ." % ("-race" if race else "", name), cwd=GOH, env=env)
    return rc == 0, out

def check_props_file(pid):
    """Re-check Props/<pid>.v with coqc and return (ok, theorems, assumptions_output)."""
    path = os.path.join(COQ, "Props", pid + ".v")
    src = open(path).read()
    theorems = re.findall(r"^(?:Theorem|Corollary)\s+(\w+)", src, re.M)
    rc, out = sh("timeout 1200 coqc -Q . OgRek Props/%s.v" % pid, cwd=COQ)
    # the theorems count only if every file they depend on was compiled from its CURRENT source: a regenerated
    # Gen/*.v or an edited proof file that fails to build leaves its old .vo behind, which coqc would load
    rq, oq = sh("make -q Props/%s.vo" % pid, cwd=COQ)
    if rc == 0 and rq != 0:
        rb, ob = sh("timeout 3000 make -k Props/%s.vo" % pid, cwd=COQ)
        if rb != 0:
            return False, theorems, out + "\n[stale dependency] a file Props/%s.v depends on does not build from its current source:\n%s" % (pid, ob[-2500:])
    return rc == 0, theorems, out

FORBIDDEN = re.compile(r"\b(Admitted|admit|Axiom|Parameter|Conjecture|Admit Obligations|bypass_check|"
                       r"Unset Guard Checking|Unset Positivity Checking|Unset Universe Checking|"
                       r"type-in-type|impredicative-set)\b")

def scan_forbidden():
    bad = []
    for sub in ("Model", "Proofs", "Props", "Gen", "Extract"):
        for f in glob_v(sub):
            txt = re.sub(r"\(\*.*?\*\)", "", open(f).read(), flags=re.S)
            for m in FORBIDDEN.finditer(txt):
                bad.append("%s: %s" % (os.path.relpath(f, VERIF), m.group(0)))
    return bad

# ---- running the two executables ---------------------------------------------------------------
def run_lines(exe, lines, extra_args=(), timeout=3000, shards=None, ulimit_stack=True, env=None):
    """Feed case lines to an executable, sharded over the cores; returns output lines in order."""
    if not lines:
        return []
    n = shards or min(NCPU, max(1, len(lines) // 50))
    chunks = [lines[i::n] for i in range(n)]
    procs = []
    for ch in chunks:
        cmd = [exe] + list(extra_args)
        if ulimit_stack:
            cmd = ["bash", "-c", "ulimit -s unlimited 2>/dev/null; exec \"$0\" \"$@\"", exe] + list(extra_args)
        p = subprocess.Popen(cmd, stdin=subprocess.PIPE, stdout=subprocess.PIPE, stderr=subprocess.PIPE,
                             env=(dict(os.environ, **env) if env else None))
        procs.append((p, ch))
    outs = []
    import threading
    results = [None] * len(procs)
    def feed(i, p, ch):
        data = ("\n".join(ch) + "\n").encode()
        try:
            o, e = p.communicate(data, timeout=timeout)
        except subprocess.TimeoutExpired:
            p.kill()
            o, e = p.communicate()
        results[i] = (o.decode("utf-8", "replace").split("\n"), p.returncode, e.decode("utf-8", "replace"))
    ths = [threading.Thread(target=feed, args=(i, p, ch)) for i, (p, ch) in enumerate(procs)]
    for t in ths: t.start()
    for t in ths: t.join()
    merged = [None] * len(lines)
    for i, (p, ch) in enumerate(procs):
        ol, rc, err = results[i]
        if ol and ol[-1] == "":
            ol = ol[:-1]
        if len(ol) < len(ch) and not _isolating:
            # the process died: find the case(s) that kill it by re-running the batch with a flush after
            # every case - everything before the first missing result is valid, the first missing one is
            # the crasher, the rest is run again
            ol = _isolate_crashes(exe, ch, extra_args, timeout, ulimit_stack, env, rc, err)
        for j in range(len(ch)):
            merged[i + j * n] = ol[j] if j < len(ol) else ("CRASHED rc=%s %s ... %s" % (rc, err[:300].replace("\n", " "), err[-200:].replace("\n", " ")))
    return merged

_isolating = False

def _isolate_crashes(exe, ch, extra_args, timeout, ulimit_stack, env, rc, err):
    global _isolating
    _isolating = True
    try:
        out, pos, crashes = [], 0, 0
        env2 = dict(env or {}, VERIF_FLUSH="1")
        while pos < len(ch) and crashes < 25:
            part = run_lines(exe, ch[pos:], extra_args=extra_args, timeout=timeout, shards=1, ulimit_stack=ulimit_stack, env=env2)
            good = 0
            while good < len(part) and not part[good].startswith("CRASHED rc="):
                good += 1
            out += part[:good]
            pos += good
            if pos < len(ch):
                out.append(part[good] if good < len(part) else "CRASHED rc=%s %s ... %s" % (rc, err[:300].replace("\n", " "), err[-200:].replace("\n", " ")))
                pos += 1
                crashes += 1
        return out
    finally:
        _isolating = False

def modelrun(lines, **kw):
    return run_lines(os.path.join(OCAML, "modelrun"), lines, **kw)

def implrun(lines, extra_args=(), **kw):
    return run_lines(os.path.join(GOH, "implrun"), lines, extra_args=extra_args, ulimit_stack=False, **kw)

# ---- reporting -----------------------------------------------------------------------------------
def write_replay(pid, obj):
    d = os.path.join(VERIF, "replays")
    os.makedirs(d, exist_ok=True)
    h = hashlib.sha256(json.dumps(obj, sort_keys=True).encode()).hexdigest()[:12]
    path = os.path.join(d, "%s-%s.json" % (pid, h))
    json.dump(obj, open(path, "w"), indent=1, sort_keys=True)
    return path

def load_known_findings():
    path = os.path.join(VERIF, "known_findings.txt")
    res = []
    if os.path.exists(path):
        for line in open(path):
            line = line.strip()
            if line.startswith("finding:"):
                kv = dict(re.findall(r"(\w+)=(\S+)", line))
                kv["_line"] = line
                res.append(kv)
    return res

def write_evidence(pid, tier_, seed_, coverage, wall, violations, assumptions):
    d = os.path.join(VERIF, "evidence")
    os.makedirs(d, exist_ok=True)
    ev = {"property_id": pid, "tier": tier_, "seed": seed_, "level": "proof",
          "coverage": coverage, "assumptions": assumptions, "wall_s": round(wall, 2),
          "violations": violations}
    json.dump(ev, open(os.path.join(d, pid + ".json"), "w"), indent=1)


# ---- oracle tables for the encoder model (dumped from the Go runtime at check time) ----------------
def oracle_env(pid, lines):
    """IsPrint table and %g texts of every float occurring in the case lines"""
    import struct
    d = os.path.join(WORK, pid)
    os.makedirs(d, exist_ok=True)
    isp = os.path.join(d, "isprint.txt")
    out = implrun(["isprint-table"], shards=1)
    open(isp, "w").write(out[0] + "\n")
    bits = set()
    for l in lines:
        for m in re.finditer(r"\bf:([0-9a-f]{16})\b", l):
            bits.add(m.group(1))
        for m in re.finditer(r"\bf32:([0-9a-f]{8})\b", l):
            f = struct.unpack(">f", bytes.fromhex(m.group(1)))[0]
            bits.add("%016x" % struct.unpack(">Q", struct.pack(">d", f))[0])
    bits = sorted(bits)
    texts = implrun(["fmtg " + b for b in bits], shards=1) if bits else []
    fm = os.path.join(d, "fmtg.txt")
    with open(fm, "w") as f:
        for b, t in zip(bits, texts):
            if t.startswith("ok "):
                f.write("%s %s\n" % (b, t[3:]))
    return {"VERIF_ISPRINT": isp, "VERIF_FMTG": fm}, dict(zip(bits, texts))
