"""C12, C13, C15, C03 (and the encoder halves of others): encoder-side checks."""
import os, re, subprocess, struct
import common as C
import encgen as E
import pkl
from props import check, parts

PY2 = "/root/.pyenv/versions/2.7.18/bin/python2"

def enc_values(rng, tier, canonical=False, n_quick=1200, n_thorough=30000, gate=True):
    vals = list(E.gate_matrix()) if gate else []
    g = E.ValGen(rng.fork("vals"), canonical_only=canonical)
    for _ in range(n_quick if tier == "quick" else n_thorough):
        vals.append(g.node())
    if canonical:
        vals = [v for v in vals if is_canonical(v)]
    return vals

def is_canonical(n):
    k = n[0]
    if k in ("none", "bool", "class"): return True
    if k == "int": return n[1] == "i"
    if k == "big": return not n[2]
    if k == "float": return not n[2]
    if k == "str": return n[1] in ("s", "z", "b")
    if k == "bytes": return n[1] == "a"
    if k == "tuple": return all(is_canonical(x) for x in n[1])
    if k == "list": return n[1] == "l" and all(is_canonical(x) for x in n[2])
    if k == "map": return n[1] in ("m", "d") and all(is_canonical(a) and is_canonical(b) for a, b in n[2])
    if k == "call": return all(is_canonical(x) for x in n[3])
    if k == "ref": return is_canonical(n[1])
    return False

def kinds_hist(vals):
    h = {}
    def walk(n):
        h[n[0]] = h.get(n[0], 0) + 1
        for x in n[1:]:
            if isinstance(x, list):
                for y in x:
                    if isinstance(y, tuple) and y and isinstance(y[0], str): walk(y)
                    elif isinstance(y, tuple):
                        for z in y:
                            if isinstance(z, tuple) and z and isinstance(z[0], str): walk(z)
            elif isinstance(x, tuple) and x and isinstance(x[0], str):
                walk(x)
    for v in vals: walk(v)
    return h

def enc_obs(o):
    """split an enc observation: (class, hexbytes, attrs)"""
    attrs = dict(m.groups() for m in re.finditer(r"#(\w+)=(\S+)", o))
    head = o.split(" #")[0].split()
    if not head: return ("?", "", attrs)
    if head[0] == "ok": return ("ok", head[1] if len(head) > 1 else "", attrs)
    if head[0] == "err": return ("err " + head[1], head[2] if len(head) > 2 else "", attrs)
    if head[0] == "panic": return ("panic", " ".join(head[1:]), attrs)
    if head[0] == "writeerr": return ("writeerr " + head[1], "", attrs)
    return (" ".join(head), "", attrs)

LAST_ENV = {}
def run_enc(pid, lines):
    env, fm = C.oracle_env(pid, lines)
    LAST_ENV[pid] = env
    impl = C.implrun(lines)
    model = C.modelrun(lines, env=env)
    return impl, model

def enc_correspondence(res, lines, impl, model, limit=5, errsets=None):
    """impl vs model of the encoder: same class, same bytes up to the order of dict entries,
    same number of Write calls"""
    mism = 0
    for i, (io, mo) in enumerate(zip(impl, model)):
        ci, bi, ai = enc_obs(io)
        cm, bm, am = enc_obs(mo)
        if ci == "ok":
            same = cm == "ok" and ai.get("writes") == am.get("writes")
            if same and bi != bm:
                same = pkl.canon(bytes.fromhex(bi)) == pkl.canon(bytes.fromhex(bm))
        else:
            # what was written before an error - and which of several errors is met first -
            # depends on map / Dict iteration order
            if errsets is not None and errsets[i]:
                same = ci in errsets[i] and cm in errsets[i]
            else:
                same = ci == cm
        if not same:
            mism += 1
            if mism <= limit:
                res.violation("correspondence: encoder model %s vs implementation %s" % ((cm, bm[:60]), (ci, bi[:60])),
                              {"kind": "correspondence", "case": lines[i][:600], "model": mo[:600], "impl": io[:600]},
                              found_input=False)
    return mism

def py2_loadable(pickles):
    """indices of protocol<=2 pickles that Python 2 cannot load (symbolic classes)"""
    script = r'''
import sys, cPickle, binascii
class G(object):
    def __init__(self, m, n): self.m, self.n = m, n
    def __call__(self, *a): return ("call", self.m, self.n, a)
def find(m, n):
    if m == "_codecs" and n == "encode":
        import _codecs; return _codecs.encode
    if m == "__builtin__" and n == "bytearray": return bytearray
    return G(m, n)
for i, line in enumerate(sys.stdin):
    data = binascii.unhexlify(line.strip())
    try:
        import StringIO
        u = cPickle.Unpickler(StringIO.StringIO(data))
        u.find_global = find
        u.persistent_load = lambda pid: ("ref", pid)
        u.load()
    except Exception as e:
        print("%d %s: %s" % (i, type(e).__name__, e))
'''
    if not os.path.exists(PY2) or not pickles:
        return None
    p = subprocess.run([PY2, "-c", script], input=("\n".join(x.hex() for x in pickles) + "\n").encode(),
                       stdout=subprocess.PIPE, stderr=subprocess.PIPE, timeout=600)
    bad = {}
    for l in p.stdout.decode("utf-8", "replace").splitlines():
        i, msg = l.split(" ", 1)
        bad[int(i)] = msg
    return bad

# =============================================================================================
# C12 — only opcodes of the requested protocol, one framed pickle
# =============================================================================================
@check("C12")
def c12(res, rng, tier):
    vals = enc_values(rng, tier, n_quick=800)
    lines, meta = [], []
    for v in vals:
        t = E.tokens(v)
        for p in range(-1, 8):
            for su in "01":
                lines.append("enc %d %s - %s" % (p, su, t)); meta.append((v, p, su))
    impl, model = run_enc("C12", lines)
    # theorem C12_conformance speaks about EncProg.program; its instruction table (Insn.asm / iproto /
    # sd_step) is compared with pickletools on the implementation's own bytes
    progs = C.modelrun(["prog " + l.split(" ", 4)[1] + " " + l.split(" ", 4)[2] + " " + l.split(" ", 4)[4] for l in lines], env=LAST_ENV["C12"])
    nontriv = 0
    table_checked, insn_seen = 0, {}
    p2, p2meta = [], []
    bad_idx = set()
    for i, io in enumerate(impl):
        v, p, su = meta[i]
        cls, hexb, attrs = enc_obs(io)
        if cls == "ok" and progs[i].startswith("ok "):
            toks = progs[i][3:].split()
            wf = toks.pop()
            if "".join(t.split(":")[0] for t in toks) == hexb:
                table_checked += 1
                for t in toks: insn_seen[t[:2]] = insn_seen.get(t[:2], 0) + 1
                why = pkl.insn_table_mismatch(bytes.fromhex(hexb), toks)
                if why is None and wf != "#wf":
                    why = "Insn.sd_run rejects the program"
                if why:
                    res.violation("instruction table of the model disagrees with pickletools: %s" % why,
                                  {"kind": "correspondence", "theorem": "C12_conformance / Insn.v", "case": lines[i][:600],
                                   "output_hex": hexb[:2000], "program": progs[i][:1500]})
        if not (0 <= p <= 5):
            if not cls.startswith("err") or attrs.get("writes") != "0":
                bad_idx.add(i)
                res.violation("protocol %d is not rejected before anything is written: %s" % (p, io[:120]),
                              {"kind": "impl", "case": lines[i][:600], "observed": io[:300], "cmd": "echo '%s' | harness/go/implrun" % lines[i][:600]})
            continue
        if cls == "ok":
            data = bytes.fromhex(hexb)
            why = pkl.check_conformance(data, p)
            if why:
                bad_idx.add(i)
                res.violation("protocol %d output is not conformant: %s" % (p, why),
                              {"kind": "impl", "case": lines[i][:600], "output_hex": hexb[:2000], "why": why,
                               "cmd": "echo '%s' | harness/go/implrun" % lines[i][:600]})
            else:
                nontriv += 1
                if p <= 2:
                    p2.append(data); p2meta.append(i)
    # an Encoder that has already written other pickles emits the same framed pickle as a fresh one
    # (PROTO header included): every third case is repeated on a used Encoder
    ridx = [i for i in range(0, len(lines), 3) if 0 <= meta[i][1] <= 5 and i not in bad_idx]
    rlines = [re.sub(r"^(enc \S+ \S+) - ", r"\1 r ", lines[i]) for i in ridx]
    rimpl = C.implrun(rlines)
    for i, ro in zip(ridx, rimpl):
        c0, h0, _ = enc_obs(impl[i]); c1, h1, _ = enc_obs(ro)
        if c0 == "ok" and (c1 != "ok" or (h1 != h0 and pkl.canon(bytes.fromhex(h1)) != pkl.canon(bytes.fromhex(h0)))):
            why = pkl.check_conformance(bytes.fromhex(h1), meta[i][1]) if c1 == "ok" else "Encode fails: " + c1
            res.violation("a used Encoder writes a different pickle than a fresh one at protocol %d (%s): %s vs %s"
                          % (meta[i][1], why or "framing differs", h1[:60], h0[:60]),
                          {"kind": "impl", "case": rlines[ridx.index(i)][:600], "fresh_encoder_hex": h0[:2000], "used_encoder_hex": h1[:2000],
                           "cmd": "echo '%s' | harness/go/implrun" % rlines[ridx.index(i)][:600]})
            bad_idx.add(i)
    bad2 = py2_loadable(p2)
    if bad2:
        for j, msg in list(bad2.items()):
            i = p2meta[j]
            # only opcode-level failures concern C12; a payload Python 2 cannot decode as text
            # (non-UTF-8 Go string emitted as unicode) is C01's known finding non_utf8_text_as_unicode
            if not re.search(r"invalid load key|unsupported pickle protocol|bad pickle", msg):
                continue
            # a str subclass / non-ASCII global name is a class-lookup matter, not an opcode matter
            res.violation("protocol %d output does not load under Python 2: %s" % (meta[i][1], msg[:200]),
                          {"kind": "impl", "case": lines[i][:600], "output_hex": p2[j].hex()[:2000], "python2": msg[:300]})
            bad_idx.add(i)
    keep = [i for i in range(len(lines)) if i not in bad_idx]
    enc_correspondence(res, [lines[i] for i in keep], [impl[i] for i in keep], [model[i] for i in keep],
                       errsets=[E.possible_errors(meta[i][0], meta[i][2] == "1", meta[i][1]) if 0 <= meta[i][1] <= 5 else None for i in keep])
    res.coverage.update({
        "evaluations": len(lines), "distinct_nontrivial": nontriv,
        "rule": "gate matrix (every documented Go type x size classes 0/1/255/256/257 x integer boundaries 2^7..2^64 +-1, zoo structs, pointers, nil pointers, unsupported kinds) + random value trees, x protocols -1..7 x StrictUnicode; each successful output scanned with CPython's pickletools (opcode -> introducing protocol, argument layout, stack effect; dis for stack discipline) and, for protocol <= 2, loaded by Python 2.7 cPickle; non-trivial = successful conformant outputs",
        "programs": len(lines), "disagreements_checked": len(lines), "value_kinds": kinds_hist(vals),
        "outputs_scanned_against_model_program": table_checked, "opcodes_seen_in_programs": insn_seen,
        "python2_loaded": len(p2) if bad2 is not None else 0, "repeated_on_a_used_encoder": len(rlines)})
    res.samples = [{"case": lines[i][:160], "impl": impl[i][:160]} for i in range(0, len(lines), max(1, len(lines) // 6))]

# =============================================================================================
# C13 — a failing Writer surfaces as Encode's error, no writes after it
# =============================================================================================
@check("C13")
def c13(res, rng, tier):
    vals = enc_values(rng, tier, n_quick=250, n_thorough=5000)
    base, bmeta = [], []
    for v in vals:
        t = E.tokens(v)
        for p in range(0, 6):
            su = "1" if (p + len(t)) % 2 else "0"
            if E.possible_errors(v, su == "1", p):
                continue        # how far Encode gets before its own error depends on map order
            base.append("enc %d %s - %s" % (p, su, t)); bmeta.append((t, p, su))
    impl0 = C.implrun(base)
    lines, meta = [], []
    for i, io in enumerate(impl0):
        cls, hexb, attrs = enc_obs(io)
        t, p, su = bmeta[i]
        n = int(attrs.get("writes", "0"))
        ks = range(n) if n <= 40 else list(range(20)) + list(range(n - 20, n))
        for k in ks:
            lines.append("enc %d %s %d %s" % (p, su, k, t)); meta.append((i, k, n))
        for bsz in (1, 16):
            lines.append("enc %d %s b%d %s" % (p, su, bsz, t)); meta.append((i, "buf", n))
    impl, model = run_enc("C13", lines)
    nontriv = 0
    for j, io in enumerate(impl):
        i, k, n = meta[j]
        cls, hexb, attrs = enc_obs(io)
        if k == "buf":
            c0, h0, _ = enc_obs(impl0[i])
            if cls != c0 or (hexb != h0 and (cls != "ok" or pkl.canon(bytes.fromhex(hexb)) != pkl.canon(bytes.fromhex(h0)))):
                res.violation("output through a buffering Writer differs: %s vs %s" % ((cls, hexb[:40]), (c0, h0[:40])),
                              {"kind": "impl", "case": lines[j][:600], "observed": io[:300], "unbuffered": impl0[i][:300]})
            continue
        want = "writeerr returned=1"
        if cls != want or attrs.get("writes") != str(k + 1) or attrs.get("after") != "0":
            res.violation("Write call #%d of %d fails: Encode gives %s, %s writes attempted, %s writes after the failure"
                          % (k, n, cls, attrs.get("writes"), attrs.get("after")),
                          {"kind": "impl", "case": lines[j][:600], "observed": io[:300],
                           "cmd": "echo '%s' | harness/go/implrun" % lines[j][:600]})
            continue
        cm, _, am = enc_obs(model[j])
        if cm != cls or am.get("writes") != attrs.get("writes"):
            res.violation("correspondence: model %s vs implementation %s" % (model[j][:100], io[:100]),
                          {"kind": "correspondence", "case": lines[j][:600], "model": model[j][:300], "impl": io[:300]}, found_input=False)
        else:
            nontriv += 1
    res.coverage.update({
        "evaluations": len(lines), "distinct_nontrivial": nontriv,
        "rule": "values (gate matrix + random trees with Dicts, structs, Calls, Refs, pointers) x protocols 0..5 x every Write index k (all k up to 40 writes, first/last 20 beyond) with a Writer failing exactly at call k, plus two buffering Writers; non-trivial = (value, protocol, k) where the injected error came back and no later Write happened",
        "programs": len(lines), "disagreements_checked": len(lines), "value_kinds": kinds_hist(vals)})
    res.samples = [{"case": lines[i][:160], "impl": impl[i][:100]} for i in range(0, len(lines), max(1, len(lines) // 6))]

# =============================================================================================
# C15 — Encode never panics
# =============================================================================================
KINDS = {"chan", "func", "complex64", "complex128", "uintptr", "unsafe.Pointer"}

@check("C15")
def c15(res, rng, tier):
    vals = enc_values(rng, tier, n_quick=2500, n_thorough=40000)
    lines, meta = [], []
    for v in vals:
        t = E.tokens(v)
        for p in range(0, 6):
            su = "1" if (p + len(t)) % 2 else "0"
            lines.append("enc %d %s - %s" % (p, su, t)); meta.append((v, p, su))
    impl, model = run_enc("C15", lines)
    nontriv = 0
    bad_idx = set()
    cls_hist = {}
    for i, io in enumerate(impl):
        v, p, su = meta[i]
        cls, hexb, attrs = enc_obs(io)
        cls_hist[cls.split(":")[0]] = cls_hist.get(cls.split(":")[0], 0) + 1
        why = None
        if cls == "panic" or io.startswith(("PANIC", "CRASHED", "TIMEOUT", "DRIVER")):
            why = "Encode panics: %s" % io[:200]
        elif cls.startswith("err type:") and cls[len("err type:"):] not in KINDS:
            why = "TypeError names %r, not an unsupported kind" % cls
        elif cls == "ok":
            w = pkl.check_conformance(bytes.fromhex(hexb), p)
            if w: why = "nil error but the pickle is not well-formed: %s" % w
        elif cls == "err other":
            why = "unexpected error class for a supported protocol"
        if why:
            bad_idx.add(i)
            res.violation(why, {"kind": "impl", "case": lines[i][:800], "observed": io[:300],
                                "cmd": "echo '%s' | harness/go/implrun" % lines[i][:800]})
        else:
            nontriv += 1
    keep = [i for i in range(len(lines)) if i not in bad_idx]
    enc_correspondence(res, [lines[i] for i in keep], [impl[i] for i in keep], [model[i] for i in keep],
                       errsets=[E.possible_errors(meta[i][0], meta[i][2] == "1", meta[i][1]) for i in keep])
    res.coverage.update({
        "evaluations": len(lines), "distinct_nontrivial": nontriv,
        "rule": "Go values of types built with reflect (StructOf with/without pickle tags, ArrayOf, SliceOf, MapOf, pointers, pointer chains), a zoo of declared types (unexported, embedded, tagged unexported fields of every kind, duplicate tags), byte arrays by value and behind pointers, typed nil pointers, named string/byte types, channels, funcs, complex, uintptr, unsafe.Pointer - nested to depth 4 - x protocols 0..5; non-trivial = Encode returned normally with a well-formed pickle or a well-typed error",
        "programs": len(lines), "disagreements_checked": len(lines), "value_kinds": kinds_hist(vals), "outcome_classes": cls_hist})
    res.samples = [{"case": lines[i][:160], "impl": impl[i][:100]} for i in range(0, len(lines), max(1, len(lines) // 6))]

# =============================================================================================
# C03 — Encode then Decode is the identity on canonical values, a normal form otherwise
# =============================================================================================
def nan_class(text, proto):
    """at protocol 0 all NaNs are one class (the text form loses the payload); the dump is re-sorted
    afterwards, because map entries were ordered by the original bit patterns"""
    if proto != 0:
        return text
    def f(m):
        bits = int(m.group(1), 16)
        if (bits >> 52) & 0x7ff == 0x7ff and bits & ((1 << 52) - 1):
            return "f:nan"
        return m.group(0)
    text = re.sub(r"\bf:([0-9a-f]{16})\b", f, text)
    if "f:nan" not in text or ("m{" not in text and "d{" not in text):
        return text
    toks = text.split()
    pos = [0]
    CLOSE = {"l[": "]", "t(": ")", "m{": "}", "d{": "}", "C(": ")", "R(": ")", "P&(": ")", "p&(": ")"}
    def node():
        t = toks[pos[0]]; pos[0] += 1
        if t in CLOSE:
            kids = []
            while toks[pos[0]] != CLOSE[t]:
                kids.append(node())
            pos[0] += 1
            if t in ("m{", "d{"):
                pairs = sorted(kids[i] + " " + kids[i + 1] for i in range(0, len(kids) - 1, 2))
                return t + " " + " ".join(pairs) + (" " if pairs else "") + CLOSE[t]
            return t + " " + " ".join(kids) + (" " if kids else "") + CLOSE[t]
        return t
    try:
        out = []
        while pos[0] < len(toks):
            out.append(node())
        return " ".join(out)
    except Exception:
        return text

ALLOWED = {"p0unicode": "err p0unicode", "p0persid": "err p0persid", "p0123global": "err p0123global", "type": "err type"}

@check("C03")
def c03(res, rng, tier):
    canon_vals = enc_values(rng.fork("canon"), tier, canonical=True, n_quick=1500)
    other_vals = enc_values(rng.fork("other"), tier, canonical=False, n_quick=500, gate=True)
    vals = [(v, True) for v in canon_vals] + [(v, False) for v in other_vals if not is_canonical(v)]
    lines, meta = [], []
    for v, can in vals:
        t = E.tokens(v)
        for p in range(0, 6):
            for su in "01":
                lines.append("enc %d %s - %s" % (p, su, t)); meta.append((v, can, p, su))
    impl, model = run_enc("C03", lines)
    dlines, dmeta = [], []
    bad_idx = set()
    for i, io in enumerate(impl):
        v, can, p, su = meta[i]
        cls, hexb, attrs = enc_obs(io)
        if attrs.get("mutated") == "1":
            res.violation("Encode modified the value it was given", {"kind": "impl", "case": lines[i][:800], "observed": io[:200]})
            bad_idx.add(i)
        errs = E.possible_errors(v, su == "1", p)
        if errs:
            if cls not in errs:
                bad_idx.add(i)
                res.violation("expected one of the documented errors %s, Encode gives %s" % (sorted(errs), cls),
                              {"kind": "impl", "case": lines[i][:800], "observed": io[:300]})
            continue
        if cls != "ok":
            bad_idx.add(i)
            res.violation("Encode fails (%s) on a value outside the documented limitations" % cls,
                          {"kind": "impl", "case": lines[i][:800], "observed": io[:300],
                           "cmd": "echo '%s' | harness/go/implrun" % lines[i][:800]})
            continue
        for pd in "01":
            dlines.append("dec %s %s 0 %s" % (pd, su, hexb)); dmeta.append((i, pd))
    dimpl = C.implrun(dlines)
    dmodel = C.modelrun(dlines)
    # the round-trip theorem (Proofs/RoundTrip.v: encode_decode) predicts norm c v for every value
    # in its fragment; the prediction itself is checked against the implementation here
    pred = C.modelrun(["norm " + l.split(" ", 4)[1] + " " + l.split(" ", 4)[2] + " " + l.split(" ", 4)[4] for l in lines], env=LAST_ENV["C03"])
    # the same with maps / Dicts / structs inside (RoundTripMaps.v: encode_decode_maps, NormMaps.norm2)
    pred2 = {pd: C.modelrun(["norm2 " + l.split(" ", 4)[1] + " " + pd + " " + l.split(" ", 4)[2] + " " + l.split(" ", 4)[4] for l in lines], env=LAST_ENV["C03"])
             for pd in "01"}
    in_fragment = 0
    in_fragment2 = 0
    nontriv = 0
    for j, do in enumerate(dimpl):
        i, pd = dmeta[j]
        v, can, p, su = meta[i]
        ps = parts(do)
        p2 = pred2[pd][i]
        if p2 != "NA" and p2 != "ok TOOBIG":
            in_fragment2 += 1
            got2 = ps[0] if ps else ""
            if got2 != p2 and not (got2.startswith("ok ") and nan_class(got2[3:], p) == nan_class(p2[3:], p)):
                res.violation("theorem encode_decode_maps predicts %s, the implementation's Decode(Encode(v)) gives %s (protocol %d StrictUnicode=%s PyDict=%s)"
                              % (p2[:200], got2[:200], p, su, pd),
                              {"kind": "correspondence", "theorem": "RoundTripMaps.encode_decode_maps / NormMaps.norm2", "case": lines[i][:800],
                               "pickle_hex": dlines[j].split()[-1][:2000], "predicted": p2[:600], "impl": do[:600]})
        if pred[i] != "NA":
            in_fragment += 1
            if ps[0] != pred[i]:
                res.violation("theorem encode_decode predicts %s, the implementation's Decode(Encode(v)) gives %s (protocol %d StrictUnicode=%s PyDict=%s)"
                              % (pred[i][:200], ps[0][:200], p, su, pd),
                              {"kind": "correspondence", "theorem": "RoundTrip.encode_decode / Norm.norm", "case": lines[i][:800],
                               "pickle_hex": dlines[j].split()[-1][:2000], "predicted": pred[i][:600], "impl": do[:600]})
        try:
            want = nan_class(E.canon_dump(E.norm(v, pd == "1", su == "1", p)), p)
        except E.Unencodable:
            want = "err other"       # default map mode: a dict keyed by tuples is the documented error
        got = nan_class(ps[0][3:], p) if ps and ps[0].startswith("ok ") else ps[0]
        if want == "err other" and ps[0] == want:
            nontriv += 1
            continue
        if len(ps) != 2 or ps[1] != "err eof" or got != want:
            bad_idx.add(i)
            res.violation("%s value does not come back as %s: protocol %d StrictUnicode=%s PyDict=%s: got %s, want %s"
                          % ("canonical" if can else "non-canonical", "itself" if can else "its documented normal form",
                             p, su, pd, got[:200], want[:200]),
                          {"kind": "impl", "case": lines[i][:800], "pickle_hex": dlines[j].split()[-1][:2000],
                           "decoded": do[:600], "expected": want[:600],
                           "cmd": "echo '%s' | harness/go/implrun   # then: echo '%s' | harness/go/implrun" % (lines[i][:400], dlines[j][:400])})
            continue
        mo = re.sub(r" ~stale| #staleappend", "", dmodel[j])
        if mo != do:
            res.violation("correspondence (decoder on encoder output): model %s vs implementation %s" % (mo[:120], do[:120]),
                          {"kind": "correspondence", "case": dlines[j][:800], "model": mo[:400], "impl": do[:400]}, found_input=False)
        nontriv += 1
    keep = [i for i in range(len(lines)) if i not in bad_idx]
    enc_correspondence(res, [lines[i] for i in keep], [impl[i] for i in keep], [model[i] for i in keep],
                       errsets=[E.possible_errors(meta[i][0], meta[i][3] == "1", meta[i][2]) for i in keep])
    res.coverage.update({
        "evaluations": len(lines) + len(dlines), "distinct_nontrivial": nontriv,
        "rule": "canonical values (None, bool, int64, *big.Int, float64 incl. NaN/-0/Inf/denormals, string, ByteString, Bytes, []byte, []any, Tuple, map incl. NaN/-0/big keys, Dict incl. tuple keys, Class, Call, Ref; gate matrix + random trees to depth 4) and non-canonical relatives (narrow/unsigned ints, float32, typed slices, arrays, structs, zoo types, pointers, nil) x protocols 0..5 x StrictUnicode x PyDict; expected value = the documented normal form computed independently in Python; NaNs are one class at protocol 0; non-trivial = successful round trips compared",
        "programs": len(lines) + len(dlines), "disagreements_checked": len(lines) + len(dlines),
        "canonical_values": len(canon_vals), "non_canonical_values": len(vals) - len(canon_vals),
        "round_trips_inside_theorem_fragment": in_fragment, "round_trips_inside_maps_theorem_fragment": in_fragment2, "round_trips_total": len(dlines),
        "value_kinds": kinds_hist([v for v, _ in vals])})
    res.samples = [{"case": lines[i][:160], "impl": impl[i][:120]} for i in range(0, len(lines), max(1, len(lines) // 6))]
