"""C19 — integer and string helpers are independent of the pickle representation."""
import re, struct
import common as C
import genprog as G
from props import check

def int_forms(z):
    """every opcode form able to carry the integer z: (name, opcode bytes)"""
    out = [("INT", b"I%d\n" % z), ("LONG", b"L%dL\n" % z)]
    if 0 <= z < 256: out.append(("BININT1", b"K" + bytes([z])))
    if 0 <= z < 65536: out.append(("BININT2", b"M" + struct.pack("<H", z)))
    if -2**31 <= z < 2**31: out.append(("BININT", b"J" + struct.pack("<i", z)))
    b = G.long1_bytes(z)
    if len(b) < 256:
        out.append(("LONG1", b"\x8a" + bytes([len(b)]) + b))
        # non-minimal LONG1 (sign-extended by one byte) denotes the same integer
        if len(b) < 255:
            out.append(("LONG1x", b"\x8a" + bytes([len(b) + 1]) + b + (b"\xff" if z < 0 else b"\x00")))
    return out

def int_domain(rng, tier):
    q = tier == "quick"
    zs = set(range(-2**12, 2**12 + 1) if q else range(-2**16, 2**16 + 1))
    for k in range(0, 71):
        for d in (-2, -1, 0, 1, 2):
            zs.add(2**k + d); zs.add(-(2**k) + d)
    for _ in range(2000 if q else 20000):
        zs.add(rng.next() - 2**63)
    # LONG1 of every byte length 0..255
    for n in range(0, 256):
        if n:
            zs.add(2**(8 * n - 2) + rng.below(1000)); zs.add(-(2**(8 * n - 2)) - rng.below(1000))
            zs.add(2**(8 * n - 1) - 1); zs.add(-(2**(8 * n - 1)))
    return sorted(zs)

STR_OPS = ["STRING", "STRING_RAW", "STRING_DQ", "BINSTRING", "SHORT_BINSTRING", "UNICODE", "BINUNICODE", "SHORT_BINUNICODE",
           "BINBYTES", "SHORT_BINBYTES", "BYTEARRAY8"]

def str_form(op, payload):
    """(pickle bytes or None, kind) for a byte payload; text opcodes need valid UTF-8"""
    n = len(payload)
    if op == "STRING": return b"S" + G.py_repr_bytes(payload) + b"\n", "bstr"
    if op in ("STRING_RAW", "STRING_DQ"):
        # the same opcode with everything left unescaped that need not be escaped (raw bytes >= 0x80,
        # control characters), in either quote style - CPython reads these too
        qc = b"'" if op == "STRING_RAW" else b'"'
        body = b"".join((b"\\" + bytes([c])) if bytes([c]) in (qc, b"\\") else (b"\\n" if c == 10 else bytes([c])) for c in payload)
        return b"S" + qc + body + qc + b"\n", "bstr"
    if op == "BINSTRING": return b"T" + struct.pack("<I", n) + payload, "bstr"
    if op == "SHORT_BINSTRING": return (b"U" + bytes([n]) + payload if n < 256 else None), "bstr"
    if op in ("UNICODE", "BINUNICODE", "SHORT_BINUNICODE"):
        try:
            s = payload.decode("utf-8")
        except UnicodeDecodeError:
            return None, "text"
        if op == "UNICODE": return b"V" + G.raw_unicode_escape(s) + b"\n", "text"
        if op == "BINUNICODE": return b"X" + struct.pack("<I", n) + payload, "text"
        return (b"\x8c" + bytes([n]) + payload if n < 256 else None), "text"
    if op == "BINBYTES": return b"B" + struct.pack("<I", n) + payload, "bytes"
    if op == "SHORT_BINBYTES": return (b"C" + bytes([n]) + payload if n < 256 else None), "bytes"
    if op == "BYTEARRAY8": return b"\x96" + struct.pack("<Q", n) + payload, "bytearray"
    raise AssertionError(op)

def kv(s):
    return dict(x.split("=", 1) for x in s.split() if "=" in x)

@check("C19")
def c19(res, rng, tier):
    zs = int_domain(rng.fork("ints"), tier)
    lines, meta = [], []
    for z in zs:
        for name, b in int_forms(z):
            lines.append("conv 0 %s" % (b + b".").hex()); meta.append(("int", z, name))
    # the same integers with the operand of each opcode form straddling a refill boundary of the decoder's 4096-byte
    # read buffer (a string payload + POP pads the stream): the helpers must see the same number
    nint = len(lines)
    for z in (0, 1, -1, 255, 256, 0x1234, 65535, 0x12345678, -0x12345678, 2**31 - 1, -2**31, 2**40 + 5, -2**63, 2**63 - 1, 2**70):
        for name, b in int_forms(z):
            for boundary in (4096, 8192):
                for d in range(1, min(len(b), 9)):
                    L = boundary - d - 6
                    pad = b"T" + struct.pack("<I", L) + bytes([97 + (i % 7) for i in range(L)]) + b"0"
                    lines.append("conv 0 %s" % (pad + b + b".").hex()); meta.append(("int", z, name + "@%d-%d" % (boundary, d)))
    # payloads x 9 opcodes x 2 modes
    r = rng.fork("payloads")
    payloads = [b"", b"a", b"'", b'"', b"\\", b"a\nb", b"\r", b"\x00", b"\x1a", b"\x7f", "é".encode(), b"\xff", b"\x80abc",
                "Ā \U0001F600".encode(), "�".encode(), b"x" * 255, b"y" * 256, b"z" * 257, b"\\x41", b"\\u0041", b"a\\", b"\\\\u0041"]
    gp = G.ProgGen(r)
    for _ in range(300 if tier == "quick" else 5000):
        payloads.append(gp.payload(20))
        payloads.append(gp.text(20).encode("utf-8"))
    for p in payloads:
        for op in STR_OPS:
            b, kind = str_form(op, p)
            if b is None:
                continue
            for su in "01":
                lines.append("conv %s %s" % (su, (b + b".").hex())); meta.append(("str", p, op, kind, su))
    # one Dict entry whatever the representation (PyDict mode): key in form A, then form B
    dlines, dmeta = [], []
    rr = rng.fork("dict")
    zsel = [z for z in zs if abs(z) < 2**70]
    for _ in range(1500 if tier == "quick" else 20000):
        z = rr.choice(zsel)
        forms = int_forms(z)
        a, b = rr.choice(forms), rr.choice(forms)
        prog = b"}" + a[1] + b"K\x01s" + b[1] + b"K\x02s."
        dlines.append("dec 1 0 0 %s" % prog.hex()); dmeta.append((z, a[0], b[0]))
    impl = C.implrun(lines + dlines)
    model = C.modelrun(lines + dlines)
    nontriv = 0
    for i, m in enumerate(meta):
        io, mo = impl[i], model[i]
        bad = None
        if m[0] == "int":
            _, z, name = m
            want = ("ok:%d" % z) if -2**63 <= z < 2**63 else "err"
            got = kv(io).get("int") if io.startswith("v=") else io
            if got != want:
                bad = "integer %d carried by %s: AsInt64 gives %s, expected %s" % (z, name, str(got)[:80], want)
        else:
            _, p, op, kind, su = m
            k = kv(io) if io.startswith("v=") else {}
            ws = "ok:" + p.hex() if kind == "text" or kind == "bstr" else "err"
            wb = "ok:" + p.hex() if kind == "bytes" or (kind == "bstr" and su == "1") else "err"
            if not k or k.get("str") != ws or k.get("bytes") != wb:
                bad = "payload %s via %s (StrictUnicode=%s): AsString=%s AsBytes=%s, expected %s / %s" % (
                    p.hex()[:40], op, su, k.get("str", io)[:60], k.get("bytes", "")[:60], ws[:60], wb[:60])
        if bad:
            res.violation(bad, {"kind": "impl", "case": lines[i][:400], "observed": io[:400], "model": mo[:400],
                                "cmd": "echo '%s' | harness/go/implrun" % lines[i][:400]})
        elif io != mo:
            res.violation("correspondence: model %s vs implementation %s" % (mo[:120], io[:120]),
                          {"kind": "correspondence", "case": lines[i][:400], "model": mo[:400], "impl": io[:400]}, found_input=False)
        else:
            nontriv += 1
    off = len(lines)
    for j, (z, fa, fb) in enumerate(dmeta):
        io, mo = impl[off + j], model[off + j]
        first = io.split(" | ")[0]
        m = re.match(r"ok d\{ (\S+) i:2 \}$", first)
        if not m:
            res.violation("PyDict: integer %d written as %s then %s does not address one Dict entry: %s" % (z, fa, fb, first[:160]),
                          {"kind": "impl", "case": dlines[j], "observed": io[:300], "cmd": "echo '%s' | harness/go/implrun" % dlines[j]})
        elif io != re.sub(r" ~stale| #staleappend", "", mo):
            res.violation("correspondence: model %s vs implementation %s" % (mo[:120], io[:120]),
                          {"kind": "correspondence", "case": dlines[j], "model": mo[:300], "impl": io[:300]}, found_input=False)
    # the same payload carried by two different opcodes in ONE pickle, and across two pickles of one stream: each
    # occurrence keeps the type of its own opcode (nothing may be shared between them by content)
    plines = []
    for p in (b"key", b"", b"a", "é".encode(), b"x" * 40):
        forms = [(op, str_form(op, p)[0]) for op in STR_OPS]
        forms = [(op, f) for op, f in forms if f is not None]
        for oa, fa in forms:
            for ob, fb in forms:
                if oa == ob: continue
                for su in "01":
                    plines.append("dec 0 %s 0 %s" % (su, (b"(" + fa + fb + fa + b"t.").hex()))
                    plines.append("dec 1 %s 0 %s" % (su, (fa + b"." + fb + b"." + fa + b".").hex()))
    # a payload larger than any internal buffer (4 KiB reader buffer, 64 KiB) followed by OTHER payloads loaded by the
    # other counted opcodes, in one pickle and fetched again through the memo afterwards: a value already decoded
    # must not change when the next operand is read
    smalls = [("SHORT_BINBYTES", b"xyz"), ("BINBYTES", b"pq" * 300), ("BINSTRING", b"rs" * 5), ("SHORT_BINSTRING", b"t"),
              ("BINUNICODE", b"uv" * 2100), ("SHORT_BINUNICODE", b"w"), ("BYTEARRAY8", b"mn" * 40), ("UNICODE", b"text"), ("STRING", b"str")]
    for n in (4097, 65536, 70001):
        for ob in ("BINBYTES", "BINSTRING", "BINUNICODE", "BYTEARRAY8"):
            fb = str_form(ob, bytes([97 + (i % 23) for i in range(n)]))[0]
            for os_, sp in smalls:
                fs = str_form(os_, sp)[0]
                for su in ("0", "1") if n == 65536 else ("0",):
                    plines.append("dec 0 %s 0 %s" % (su, (b"(" + fb + b"q\x00" + fs + b"h\x00t.").hex()))
            plines.append("dec 1 0 0 %s" % (fb + b"." + b"".join(str_form(o, q_)[0] + b"." for o, q_ in smalls)).hex())
    pimpl = C.implrun(plines)
    pmodel = C.modelrun(plines)
    for l, io, mo in zip(plines, pimpl, pmodel):
        if io != re.sub(r" ~stale| #staleappend", "", mo):
            res.violation("one payload under two opcodes: Decode gives %s, each opcode on its own gives %s" % (io[:140], mo[:140]),
                          {"kind": "impl", "case": l[:400], "observed": io[:400], "model": mo[:400], "cmd": "echo '%s' | harness/go/implrun" % l[:400]})
    res.coverage.update({
        "payload_under_two_opcodes": len(plines),
        "evaluations": len(lines) + len(dlines) + len(plines), "distinct_nontrivial": nontriv,
        "rule": "integers: exhaustive -2^%d..2^%d, lattice +-2^k+d (k<=70), random 64-bit, LONG1 of every byte length 0..255, each in every opcode form able to carry it (INT, LONG, BININT1/2, BININT, LONG1, non-minimal LONG1); payloads (adversarial alphabet, 255/256/257 bytes, random) x 9 opcodes x StrictUnicode; PyDict: two representations of one integer as keys; non-trivial = case whose helper result matched the expectation" % ((12, 12) if tier == "quick" else (16, 16)),
        "programs": len(lines) + len(dlines), "disagreements_checked": len(lines) + len(dlines),
        "integers": len(zs), "payloads": len(payloads)})
    res.samples = [{"case": lines[i][:80], "impl": impl[i][:120]} for i in (0, 1, len(lines) // 2, len(lines) - 1)]
