"""Typed-grammar generator of pickle programs (every opcode variant og-rek supports,
canonically formatted arguments), plus mutation and the length-bomb family."""
import struct
from common import Rng

ALPHABET = [b"'", b'"', b"\\", b"\n", b"\r", b"\x00", b"\x1a", b"\x7f", b"\x80", b"\xff",
            "Ā".encode(), " ".encode(), "�".encode(), "\U0001F600".encode(),
            b"a", b"b", b" ", b"\xc3\xa9", b"\t", b"\xe9"]

def py_repr_bytes(b, quote=b"'"):
    """CPython-2-style repr of a byte string, as the protocol-0 STRING argument."""
    out = bytearray(quote)
    for c in b:
        ch = bytes([c])
        if ch == quote or ch == b"\\":
            out += b"\\" + ch
        elif ch == b"\t": out += b"\\t"
        elif ch == b"\n": out += b"\\n"
        elif ch == b"\r": out += b"\\r"
        elif c < 0x20 or c >= 0x7f:
            out += b"\\x%02x" % c
        else:
            out += ch
    return bytes(out + quote)

def raw_unicode_escape(s):
    """what CPython's pickler writes after V for text s (protocol 0)."""
    out = bytearray()
    for ch in s:
        o = ord(ch)
        if ch == "\\" or ch == "\n" or ch == "\r" and False:
            out += b"\\u%04x" % o
        elif o >= 0x10000:
            out += b"\\U%08x" % o
        elif o >= 0x100:
            out += b"\\u%04x" % o
        else:
            out += bytes([o])
    return bytes(out)

def long1_bytes(n):
    if n == 0:
        return b""
    nbytes = (n.bit_length() >> 3) + 1
    b = n.to_bytes(nbytes, "little", signed=True)
    if n < 0 and nbytes > 1 and b[-1] == 0xff and (b[-2] & 0x80) != 0:
        b = b[:-1]
    return b

HASHABLE = ["int", "bool", "none", "float", "long", "str", "bstr", "bytes", "tuple_h"]
ANY = HASHABLE + ["list", "tuple", "dict", "bytearray", "class", "call", "ref", "memo"]

class ProgGen:
    def __init__(self, rng, max_depth=4, allow_ref=True, allow_call=True, max_proto=5,
                 adversarial_text=True, allow_memoize=True):
        self.allow_memoize = allow_memoize
        self.r = rng
        self.max_depth = max_depth
        self.memo_keys = []          # encoded GET forms available
        self.memo_count = 0
        self.next_key = 0
        self.allow_ref = allow_ref
        self.allow_call = allow_call
        self.max_proto = max_proto
        self.adv = adversarial_text
        self.ops = {}                # opcode histogram

    def op(self, name, b):
        self.ops[name] = self.ops.get(name, 0) + 1
        return b

    # ---- scalars ----
    def some_int(self):
        r = self.r
        k = r.below(10)
        if k == 0: return r.below(256)
        if k == 1: return r.below(65536)
        if k == 2: return r.below(1 << 32) - (1 << 31)
        if k == 3: return r.choice([0, 1, -1, 255, 256, 65535, 65536, 2**31 - 1, -2**31, 2**31, 2**32,
                                    2**63 - 1, -2**63, 2**63, 2**64, -2**64, 2**53, 2**53 + 1])
        if k == 4: return (r.next() - (1 << 63))
        if k == 5: return r.choice([1, -1]) * (1 << r.below(200)) + r.below(5) - 2
        return r.below(100) - 50

    def int_op(self, n=None):
        r = self.r
        if n is None: n = self.some_int()
        forms = []
        if 0 <= n < 256: forms.append("K")
        if 0 <= n < 65536: forms.append("M")
        if -2**31 <= n < 2**31: forms.append("J")
        forms += ["I", "L", "L1"]
        f = r.choice(forms)
        if f == "K": return self.op("BININT1", b"K" + bytes([n]))
        if f == "M": return self.op("BININT2", b"M" + struct.pack("<H", n))
        if f == "J": return self.op("BININT", b"J" + struct.pack("<i", n))
        if f == "I": return self.op("INT", b"I%d\n" % n)
        if f == "L": return self.op("LONG", b"L%dL\n" % n)
        b = long1_bytes(n)
        if len(b) < 256:
            return self.op("LONG1", b"\x8a" + bytes([len(b)]) + b)
        return self.op("LONG", b"L%dL\n" % n)

    def bool_op(self):
        v = self.r.below(2)
        if self.r.below(2): return self.op("INT_BOOL", b"I0%d\n" % v)
        return self.op("NEWBOOL", b"\x88" if v else b"\x89")

    def float_op(self):
        r = self.r
        k = r.below(6)
        if k == 0: bits = r.next()
        elif k == 1: bits = r.choice([0, 1 << 63, 0x7ff0000000000000, 0xfff0000000000000, 0x7ff8000000000000,
                                      1, 0x000fffffffffffff, 0x0010000000000000, 0x7fefffffffffffff,
                                      0x3ff0000000000000, 0x4340000000000000, 0x43e0000000000000])
        else:
            bits = struct.unpack(">Q", struct.pack(">d", (r.below(2000001) - 1000000) / r.choice([1, 2, 3, 7, 10, 1000])))[0]
        f = struct.unpack(">d", struct.pack(">Q", bits))[0]
        if r.below(2) or f != f:
            return self.op("BINFLOAT", b"G" + struct.pack(">Q", bits))
        return self.op("FLOAT", b"F" + repr(f).encode() + b"\n")

    def payload(self, maxlen=12):
        r = self.r
        k = r.below(12)
        if k == 0: return b""
        if k == 1 and self.adv: return r.bytes(r.choice([255, 256, 257]))
        n = r.below(maxlen)
        if self.adv and r.below(2):
            return b"".join(r.choice(ALPHABET) for _ in range(n))
        return bytes(r.choice(b"abcxyz019 _") for _ in range(n))

    def text(self, maxlen=12):
        r = self.r
        n = r.below(maxlen)
        if r.below(12) == 0: n = r.choice([255, 256, 257])
        chars = "abéĀ �\U0001F600'\"\\\n\r\x00\x1a\x7f \t" if self.adv else "abcxyz019 _"
        return "".join(r.choice(chars) for _ in range(n))

    def bstr_op(self, b=None):
        r = self.r
        if b is None: b = self.payload()
        f = r.below(3)
        if f == 0:
            return self.op("STRING", b"S" + py_repr_bytes(b, r.choice([b"'", b'"'])) + b"\n")
        if f == 1 and len(b) < 256:
            return self.op("SHORT_BINSTRING", b"U" + bytes([len(b)]) + b)
        return self.op("BINSTRING", b"T" + struct.pack("<I", len(b)) + b)

    def str_op(self, s=None):
        r = self.r
        if s is None: s = self.text()
        u = s.encode("utf-8", "surrogatepass")
        f = r.below(3)
        if f == 0:
            return self.op("UNICODE", b"V" + raw_unicode_escape(s) + b"\n")
        if f == 1 and len(u) < 256:
            return self.op("SHORT_BINUNICODE", b"\x8c" + bytes([len(u)]) + u)
        return self.op("BINUNICODE", b"X" + struct.pack("<I", len(u)) + u)

    def bytes_op(self, b=None):
        r = self.r
        if b is None: b = self.payload()
        f = r.below(4)
        if f == 0 and len(b) < 256:
            return self.op("SHORT_BINBYTES", b"C" + bytes([len(b)]) + b)
        if f == 1:
            return self.op("BINBYTES", b"B" + struct.pack("<I", len(b)) + b)
        if f == 2:
            # protocol <= 2 form: _codecs.encode(text, 'latin1')
            t = b.decode("latin1")
            return (self.op("GLOBAL", b"c_codecs\nencode\n") + self.str_op(t) +
                    self.r.choice([self.str_op("latin1"), self.bstr_op(b"latin1")]) +
                    self.op("TUPLE2", b"\x86") + self.op("REDUCE", b"R"))
        return self.op("BINBYTES", b"B" + struct.pack("<I", len(b)) + b)

    def bytearray_op(self):
        r = self.r
        b = self.payload()
        f = r.below(3)
        if f == 0:
            return self.op("BYTEARRAY8", b"\x96" + struct.pack("<Q", len(b)) + b)
        # the module depends on the protocol announced by PROTO (tracked by the caller)
        mod = b"builtins" if self.proto >= 3 else b"__builtin__"
        if f == 1:
            return (self.op("GLOBAL", b"c" + mod + b"\nbytearray\n") + self.bytes_op(b) +
                    self.op("TUPLE1", b"\x85") + self.op("REDUCE", b"R"))
        return (self.op("GLOBAL", b"c" + mod + b"\nbytearray\n") + self.str_op(b.decode("latin1")) +
                self.str_op("latin-1") + self.op("TUPLE2", b"\x86") + self.op("REDUCE", b"R"))

    def class_op(self):
        r = self.r
        m = r.choice(["decimal", "foo.bar", "__main__", "m"])
        n = r.choice(["Decimal", "C", "x.y", "Klass"])
        if r.below(3) == 0:
            return self.str_op(m) + self.str_op(n) + self.op("STACK_GLOBAL", b"\x93")
        return self.op("GLOBAL", b"c" + m.encode() + b"\n" + n.encode() + b"\n")

    # ---- memo ----
    def maybe_memoize(self):
        r = self.r
        if r.below(3) != 0:
            return b""
        f = r.below(4 if self.allow_memoize else 3)
        if f == 3:
            key = self.memo_count      # MEMOIZE: key = number of memo entries
            out = self.op("MEMOIZE", b"\x94")
        else:
            key = self.next_key
            if f == 0: out = self.op("PUT", b"p%d\n" % key)
            elif f == 1 and key < 256: out = self.op("BINPUT", b"q" + bytes([key]))
            else: out = self.op("LONG_BINPUT", b"r" + struct.pack("<I", key))
        if key not in self.memo_keys:
            self.memo_keys.append(key)
            self.memo_count += 1
        self.next_key = max(self.next_key, key) + 1
        return out

    def get_op(self):
        r = self.r
        key = r.choice(self.memo_keys)
        f = r.below(3)
        if f == 0: return self.op("GET", b"g%d\n" % key)
        if f == 1 and key < 256: return self.op("BINGET", b"h" + bytes([key]))
        return self.op("LONG_BINGET", b"j" + struct.pack("<I", key))

    # ---- values ----
    def value(self, depth, kinds=None):
        r = self.r
        kinds = kinds or ANY
        if depth >= self.max_depth:
            kinds = [k for k in kinds if k in ("int", "bool", "none", "float", "long", "str", "bstr", "bytes")]
        k = r.choice(kinds)
        if k == "memo":
            if not self.memo_keys or kinds is HASHABLE:
                k = "int"
            else:
                return self.get_op()
        if k in ("int", "long"): out = self.int_op()
        elif k == "bool": out = self.bool_op()
        elif k == "none": out = self.op("NONE", b"N")
        elif k == "float": out = self.float_op()
        elif k == "str": out = self.str_op()
        elif k == "bstr": out = self.bstr_op()
        elif k == "bytes": out = self.bytes_op()
        elif k == "bytearray": out = self.bytearray_op()
        elif k == "class": out = self.class_op()
        elif k == "call":
            if not self.allow_call: return self.value(depth, ["int"])
            out = self.class_op() + self.tuple_value(depth + 1, ANY) + self.op("REDUCE", b"R")
        elif k == "ref":
            if not self.allow_ref: return self.value(depth, ["int"])
            if r.below(2):
                out = self.op("PERSID", b"P" + bytes(r.choice(b"abc019 ") for _ in range(r.below(6))) + b"\n")
            else:
                out = self.value(depth + 1, HASHABLE + ["tuple"]) + self.op("BINPERSID", b"Q")
        elif k in ("tuple", "tuple_h"):
            out = self.tuple_value(depth + 1, HASHABLE if k == "tuple_h" else ANY)
        elif k == "list": out = self.list_value(depth + 1)
        elif k == "dict": out = self.dict_value(depth + 1)
        else: raise AssertionError(k)
        # harmless stack noise
        if r.below(12) == 0:
            out += self.op("DUP", b"2") + self.op("POP", b"0")
        if r.below(25) == 0:
            out += self.op("MARK", b"(") + self.op("POP", b"0")
        return out + self.maybe_memoize()

    def tuple_value(self, depth, kinds):
        r = self.r
        n = r.choice([0, 1, 2, 3, 3, 4, 5])
        items = b"".join(self.value(depth, kinds) for _ in range(n))
        if n == 0 and r.below(2): return self.op("EMPTY_TUPLE", b")")
        if 1 <= n <= 3 and r.below(2):
            return items + self.op("TUPLE%d" % n, bytes([0x84 + n]))
        return self.op("MARK", b"(") + items + self.op("TUPLE", b"t")

    def list_value(self, depth):
        r = self.r
        n = r.choice([0, 1, 2, 3, 5, 9])
        f = r.below(3)
        if f == 0:
            return self.op("MARK", b"(") + b"".join(self.value(depth) for _ in range(n)) + self.op("LIST", b"l")
        out = self.op("EMPTY_LIST", b"]") + self.maybe_memoize()
        if f == 1:
            for _ in range(n):
                out += self.value(depth) + self.op("APPEND", b"a")
            return out
        # batches
        while n > 0:
            k = 1 + r.below(n)
            out += self.op("MARK", b"(") + b"".join(self.value(depth) for _ in range(k)) + self.op("APPENDS", b"e")
            n -= k
        return out

    def dict_value(self, depth):
        r = self.r
        n = r.choice([0, 1, 2, 3, 5, 9])
        f = r.below(3)
        pair = lambda: self.value(depth, HASHABLE) + self.value(depth)
        if f == 0:
            return self.op("MARK", b"(") + b"".join(pair() for _ in range(n)) + self.op("DICT", b"d")
        out = self.op("EMPTY_DICT", b"}") + self.maybe_memoize()
        if f == 1:
            for _ in range(n):
                out += pair() + self.op("SETITEM", b"s")
            return out
        while n > 0:
            k = 1 + r.below(n)
            out += self.op("MARK", b"(") + b"".join(pair() for _ in range(k)) + self.op("SETITEMS", b"u")
            n -= k
        return out

    def pickle(self, depth=0):
        """one complete pickle: optional PROTO / FRAME, one value, STOP"""
        r = self.r
        self.memo_keys, self.memo_count, self.next_key = [], 0, 0
        out = b""
        self.proto = 0
        if r.below(2):
            self.proto = r.below(self.max_proto + 1)
            out += self.op("PROTO", b"\x80" + bytes([self.proto]))
        body = self.value(depth) + self.op("STOP", b".")
        if self.proto >= 4 and r.below(2):
            # the frame covers exactly the rest of the pickle (as CPython's pickler frames)
            out += self.op("FRAME", b"\x95" + struct.pack("<Q", len(body)))
        return out + body

# ---- malformed stream -----------------------------------------------------------------------
LEN_OPS = [(b"T", 4), (b"X", 4), (b"B", 4), (b"U", 1), (b"C", 1), (b"\x8c", 1), (b"\x96", 8),
           (b"\x8a", 1), (b"\x95", 8), (b"\x8d", 8), (b"\x8e", 8), (b"\x8b", 4)]
HUGE = [2**16, 2**31 - 1, 2**31, 2**32 - 1, 2**63 - 1, 2**63, 2**64 - 1, 255, 128]

def length_bombs():
    """every length-prefixed opcode x huge lengths x {no payload, one byte, a few bytes}"""
    out = []
    for op, w in LEN_OPS:
        for n in HUGE:
            if n >= 1 << (8 * w):
                continue
            enc = n.to_bytes(w, "little")
            for tail in (b"", b"x", b"abc."):
                out.append(op + enc + tail)
                out.append(b"\x80\x02" + op + enc + tail)
    # a huge announced length followed by a real payload beyond any preallocation cap (64 KiB), then EOF:
    # memory must follow the bytes that actually arrive
    body = b"p" * 70000
    for op, w in LEN_OPS:
        for n in (1 << 28, (1 << 31) - 1, 1 << 40):
            if n >= 1 << (8 * w):
                continue
            out.append(op + n.to_bytes(w, "little") + body)
    return out

def mutate(rng, data, n=1):
    b = bytearray(data)
    for _ in range(n):
        k = rng.below(6)
        if not b:
            b += rng.bytes(1 + rng.below(3)); continue
        i = rng.below(len(b))
        if k == 0: b[i] = rng.below(256)
        elif k == 1: del b[i]
        elif k == 2: b.insert(i, rng.below(256))
        elif k == 3: b[i] ^= 1 << rng.below(8)
        elif k == 4:
            j = rng.below(len(b)); i, j = min(i, j), max(i, j)
            b[i:i] = b[i:j][:64]
        else:
            b = b[:i]
    return bytes(b)

ALL_OPCODES = b"(.012FIJKLMNPQRSTUVX]abcdeghijlopqrstu})GBC\x80\x81\x82\x83\x84\x85\x86\x87\x88\x89\x8a\x8b\x8c\x8d\x8e\x8f\x90\x91\x92\x93\x94\x95\x96\x97\x98"

def random_opcode_soup(rng, n):
    """opcode-dense random programs: mostly opcodes, some operand bytes"""
    out = bytearray()
    for _ in range(n):
        k = rng.below(10)
        if k < 6: out.append(rng.choice(ALL_OPCODES))
        elif k < 8: out += bytes([rng.choice(b"KMJUhq"), rng.below(256)])
        elif k == 8: out += rng.choice([b"I1\n", b"I01\n", b"L5L\n", b"F1.5\n", b"S'a'\n", b"Vb\n", b"p1\n", b"g1\n", b"cm\nn\n", b"Px\n"])
        else: out.append(rng.below(256))
    return bytes(out)

# ---- exhaustive small-state sweep: every opcode on every small typed stack ---------------------
STACK_ITEMS = [
    b"K\x01", b"\x88", b"N", b"G\x3f\xf0\x00\x00\x00\x00\x00\x00", b"\x8a\x01\x05",
    b"X\x01\x00\x00\x00a", b"U\x01a", b"C\x01a", b"\x96\x01\x00\x00\x00\x00\x00\x00\x00a",
    b"]", b"]K\x01a", b")", b"K\x01\x85", b"K\x01K\x02\x86", b"C\x01a\x85",
    b"X\x01\x00\x00\x00xX\x06\x00\x00\x00latin1\x86", b"X\x01\x00\x00\x00xX\x07\x00\x00\x00latin-1\x86",
    b"U\x01xU\x06latin1\x86", b"X\x02\x00\x00\x00\xc4\x80X\x06\x00\x00\x00latin1\x86",
    b"}", b"}K\x01K\x02s", b"cm\nC\n", b"c_codecs\nencode\n", b"c__builtin__\nbytearray\n", b"cbuiltins\nbytearray\n",
    b"(", b"K\x01Q", b"cm\nC\n)R",
]
SMALL_ITEMS = [b"K\x01", b"X\x01\x00\x00\x00a", b"]", b")", b"}", b"cm\nC\n", b"(", b"N", b"K\x01\x85", b"U\x01a"]
SWEEP_OPS = [b"0", b"1", b"2", b"(", b"a", b"e", b"s", b"u", b"d", b"l", b"t", b"\x85", b"\x86", b"\x87", b")", b"]", b"}",
             b"R", b"Q", b"Px\n", b"\x93", b"b", b"o", b"i", b"\x81", b"\x92", b"\x94", b"p1\n", b"q\x01", b"r\x01\x00\x00\x00",
             b"g1\n", b"h\x01", b"j\x01\x00\x00\x00", b"q\x01h\x01", b"\x94h\x00", b"K\x07", b"N", b"\x97", b"\x98", b"\x8f", b"\x90",
             b"\x91", b"\x80\x03", b"\x80\x02", b"\x95\x00\x00\x00\x00\x00\x00\x00\x00", b".",
             # one memo slot written and read through opcodes of different index widths / notations
             b"q\x01j\x01\x00\x00\x00", b"r\x01\x00\x00\x00h\x01", b"p1\nj\x01\x00\x00\x00", b"\x94j\x00\x00\x00\x00",
             b"r\x00\x01\x00\x00g256\n", b"p256\nj\x00\x01\x00\x00"]

def stack_sweep(proto_prefixes=(b"", b"\x80\x03")):
    """stack (0..2 items of every kind, 3 items of a reduced set) x every opcode, then STOP"""
    stacks = [b""]
    stacks += list(STACK_ITEMS)
    stacks += [a + b for a in STACK_ITEMS for b in STACK_ITEMS]
    stacks += [a + b + c for a in SMALL_ITEMS for b in SMALL_ITEMS for c in SMALL_ITEMS]
    out = []
    for st in stacks:
        for op in SWEEP_OPS:
            out.append(st + op + b".")
    # the protocol-dependent callables once more under PROTO 3
    for st in stacks[:1 + len(STACK_ITEMS) + len(STACK_ITEMS) ** 2]:
        if b"bytearray" in st or b"encode" in st:
            for op in (b"R", b"\x85R", b"\x86R"):
                out.append(b"\x80\x03" + st + op + b".")
    return out


# ---- cyclic objects as operands of every opcode -------------------------------------------------
# a dict / list / Dict-in-tuple that contains itself, alone and next to every other kind of item, under every
# opcode: error paths that format or walk their operands (REDUCE's messages, key checks, BUILD ...) must not
# recurse without bound
CYCLIC_ITEMS = [b"}q\x00K\x01h\x00s",            # d = {1: d}
                b"]q\x00h\x00a",                  # l = [l]
                b"]q\x00h\x00a\x85",              # (l,) with l = [l]
                b"}q\x00K\x01]q\x01h\x00as"]      # d = {1: [d]}
def cyclic_operand_programs():
    out = []
    for c in CYCLIC_ITEMS:
        stacks = [c, b"(" + c, c + b")", b")" + c]
        stacks += [c + it for it in STACK_ITEMS] + [it + c for it in STACK_ITEMS]
        stacks += [c + c2 for c2 in CYCLIC_ITEMS[:2]]
        for st in stacks:
            for op in SWEEP_OPS:
                out.append(st + op + b".")
                # the operand dropped again so that the result is printable whatever happened
                out.append(st + op + b"0N.")
    return out
