"""Per-property checks: generated domain, correspondence (model vs implementation) on
projected observables, and the property's direct oracle on the implementation."""
import glob, os, re, struct
import common as C
import genprog as G

CONFIGS = [("0", "0"), ("0", "1"), ("1", "0"), ("1", "1")]
CHECKS = {}


def check(pid):
    def deco(f):
        CHECKS[pid] = f
        return f
    return deco

# ---- shared: the decoder input domain -------------------------------------------------------
def model_ok_input(d):
    """inputs the extracted model evaluates in reasonable time (decimal parsing of huge
    integers is quadratic in the unary-free but list-based N of the extraction)"""
    return len(d) <= 16384 and not re.search(rb"[0-9]{3000,}", d)

def corpus_files():
    out = []
    for f in sorted(glob.glob(os.path.join(C.REPO, "fuzz", "corpus", "*"))):
        try:
            d = open(f, "rb").read()
        except OSError:
            continue
        out.append(d)
    return out

def kept_corpus(pid):
    out = []
    for f in sorted(glob.glob(os.path.join(C.VERIF, "corpus", pid, "*.hex"))):
        for line in open(f):
            line = line.strip()
            if line and not line.startswith("#"):
                out.append(bytes.fromhex(line))
    return out

def gen_pickles(rng, n, **kw):
    out, hist = [], {}
    for i in range(n):
        g = G.ProgGen(rng.fork("p%d" % i), **kw)
        out.append(g.pickle())
        for k, v in g.ops.items():
            hist[k] = hist.get(k, 0) + v
    return out, hist

def decoder_domain(rng, tier, pid):
    """list of (tag, bytes): kept failures first, then corpus, generated, mutated, soup, bombs"""
    q = tier == "quick"
    dom = [("kept", d) for d in kept_corpus(pid)]
    corp = [d for d in corpus_files() if model_ok_input(d)]
    r = rng.fork("corpus")
    if q and len(corp) > 700:
        idx = sorted(set(r.below(len(corp)) for _ in range(700)))
        corp_s = [corp[i] for i in idx]
    else:
        corp_s = corp
    dom += [("corpus", d) for d in corp_s]
    gen, hist = gen_pickles(rng.fork("gen"), 1500 if q else 20000)
    dom += [("gen", d) for d in gen]
    r = rng.fork("mut")
    base = gen + corp_s
    for i in range(1500 if q else 20000):
        dom.append(("mut", G.mutate(r, r.choice(base), 1 + r.below(3))))
    r = rng.fork("soup")
    for i in range(800 if q else 10000):
        dom.append(("soup", G.random_opcode_soup(r, 1 + r.below(40))))
    dom += [("bomb", d) for d in G.length_bombs()]
    dom = [(t, d) for (t, d) in dom if model_ok_input(d)]
    return dom, hist

def dec_lines(dom, lm="0", configs=CONFIGS):
    lines, meta = [], []
    for tag, d in dom:
        for pd, su in configs:
            lines.append("dec %s %s %s %s" % (pd, su, lm, d.hex()))
            meta.append((tag, d, pd, su))
    return lines, meta

def strip_model(s):
    s = re.sub(r" ~stale", "", s)
    s = re.sub(r" #staleappend", "", s)
    return s

def strip_impl(s):
    return re.sub(r" #alloc=\d+", "", s)

def parts(obs):
    """observation -> list of per-Decode results (without the #log / #alloc suffixes)"""
    obs = re.sub(r" #(log|alloc|staleappend).*$", "", obs)
    return obs.split(" | ")

def outcome_class(part):
    """project one Decode result to its class: ok / err <class> / panic / ..."""
    part = part.replace(" ~stale", "")
    return "ok" if part.startswith("ok ") or part == "ok" else part

def classes(obs):
    return [outcome_class(p) for p in parts(obs)]

def tag_hist(meta):
    h = {}
    for m in meta:
        h[m[0]] = h.get(m[0], 0) + 1
    return h

def first_classes_hist(obs_list):
    h = {}
    for o in obs_list:
        c = classes(o)[0] if o else "?"
        c = re.sub(r"opcode:\d+:\d+", "opcode", c)
        h[c] = h.get(c, 0) + 1
    return h

# =============================================================================================
# C04 — Decode is total and resource-safe on arbitrary bytes
# =============================================================================================
def alloc_envelope(n):
    return 1024 * n + (2 << 20)

@check("C04")
def c04(res, rng, tier):
    dom, hist = decoder_domain(rng, tier, "C04")
    # every single byte alone and after one instruction; every PROTO version
    for b in range(256):
        dom.append(("byte", bytes([b])))
        dom.append(("byte", b"K\x01" + bytes([b])))
        dom.append(("proto", b"\x80" + bytes([b]) + b"N."))
    lines, meta = dec_lines(dom)
    impl = C.implrun(lines, extra_args=["-alloc"])
    model = C.modelrun(lines)
    nontrivial = set()
    mism = 0
    for i, (mo, io) in enumerate(zip(model, impl)):
        tag, d, pd, su = meta[i]
        # ---- direct oracle on the implementation
        bad = None
        if io.startswith("TIMEOUT") or "NOPROGRESS" in io:
            bad = "Decode does not terminate / makes no progress"
        elif "panic" in classes(io) or io.startswith("PANIC") or io.startswith("CRASHED"):
            bad = "Decode panics"
        else:
            m = re.search(r"#alloc=(\d+)", io)
            if m and int(m.group(1)) > alloc_envelope(len(d)):
                bad = "Decode allocates %s bytes for %d input bytes (envelope %d)" % (m.group(1), len(d), alloc_envelope(len(d)))
        if bad:
            res.violation(bad, {"kind": "impl", "input_hex": d.hex(), "pydict": pd, "strict": su,
                                "observed": io[:500], "cmd": "echo 'dec %s %s 0 %s' | harness/go/implrun -alloc" % (pd, su, d.hex())})
            continue
        # ---- correspondence on the projected observable: the class of every Decode result
        if "#staleappend" in mo:
            continue
        ci, cm = classes(io), classes(mo)
        if ci != cm:
            mism += 1
            if mism <= 5:
                res.violation("correspondence: outcome classes differ (model %s, implementation %s)" % (cm[:4], ci[:4]),
                              {"kind": "correspondence", "input_hex": d.hex(), "pydict": pd, "strict": su,
                               "model": mo[:500], "impl": strip_impl(io)[:500]}, found_input=False)
        if len(ci) > 1 or ci[0] != "err eof":
            nontrivial.add(d)
    # the two error-shape clauses, stated directly on the implementation
    supported = set()
    for i, (tag, d, pd, su) in enumerate(meta):
        if tag == "byte" and len(d) == 1:
            c0 = classes(impl[i])[0]
            if c0 != "err opcode:%d:1" % d[0]:
                supported.add(d[0])
    for i, (tag, d, pd, su) in enumerate(meta):
        c0 = classes(impl[i])[0]
        if tag == "byte" and len(d) == 3 and d[2] not in supported and c0 != "err opcode:%d:2" % d[2]:
            res.violation("unsupported opcode byte %d not reported as OpcodeError{%d,2}: %s" % (d[2], d[2], c0),
                          {"kind": "impl", "input_hex": d.hex(), "pydict": pd, "strict": su, "observed": impl[i][:300]})
        if tag == "proto" and d[1] > 5 and c0 != "err badversion":
            res.violation("PROTO %d not rejected with ErrInvalidPickleVersion: %s" % (d[1], c0),
                          {"kind": "impl", "input_hex": d.hex(), "pydict": pd, "strict": su, "observed": impl[i][:300]})
    res.coverage.update({
        "evaluations": len(lines), "distinct_nontrivial": len(nontrivial),
        "rule": "inputs = kept failures + fuzz corpus + grammar pickles + mutations + opcode soup + length bombs + every byte / PROTO version, x4 configs; non-trivial = distinct input whose first Decode is not a bare io.EOF",
        "programs": len(lines), "disagreements_checked": len(lines),
        "input_tags": tag_hist(meta), "first_outcome_classes": first_classes_hist(impl),
        "opcode_histogram_generated": hist, "supported_opcode_bytes": len(supported)})
    res.samples = [{"input_hex": meta[i][1].hex()[:120], "impl": strip_impl(impl[i])[:160], "model": model[i][:160]}
                   for i in range(0, len(lines), max(1, len(lines) // 6))]

# =============================================================================================
# C10 — truncated input is io.ErrUnexpectedEOF, exhausted input is io.EOF
# =============================================================================================
def cut_positions(n, all_limit=300):
    if n <= all_limit:
        return list(range(n))
    s = set(range(64)) | set(range(n - 64, n))
    s |= set(range(0, n, max(1, n // 64)))
    return sorted(k for k in s if 0 <= k < n)

def valid_pickles(rng, tier, extra=()):
    """pickles that the implementation decodes successfully, consuming them entirely"""
    q = tier == "quick"
    cand = list(extra)
    gen, hist = gen_pickles(rng.fork("valid"), 400 if q else 5000)
    cand += gen
    # long text lines (> 4096 bytes: longer than bufio's buffer), LONG1, 8-byte lengths, frames
    big = b"a" * 5000
    cand += [b"S'" + big + b"'\n.", b"V" + big + b"\n.", b"I" + b"1" * 300 + b"\n.", b"L" + b"7" * 300 + b"L\n.",
             b"\x80\x05\x95" + struct.pack("<Q", 20) + b"\x96" + struct.pack("<Q", 5) + b"hello.",
             b"\x8a\xff" + b"\x01" * 255 + b".", b"\x8a\x80" + b"\x7f" * 128 + b".",
             b"c" + big + b"\n" + big + b"\n.", b"(I1\nI2\nF1.5\nS'x'\nl.", b"P" + big + b"\n."]
    cand += [d for d in corpus_files() if model_ok_input(d)][: (300 if q else 3000)]
    return cand, hist

@check("C10")
def c10(res, rng, tier):
    cand, hist = valid_pickles(rng, tier, extra=kept_corpus("C10"))
    lines, meta = dec_lines([("cand", d) for d in cand])
    whole = C.implrun(lines)
    cases, cmeta = [], []
    nvalid = 0
    for i, o in enumerate(whole):
        tag, d, pd, su = meta[i]
        p = parts(o)
        if len(p) == 2 and p[0].startswith("ok ") and p[1] == "err eof":
            nvalid += 1
            for k in cut_positions(len(d)):
                cases.append("dec %s %s 0 %s" % (pd, su, d[:k].hex()))
                cmeta.append((d, k, pd, su))
    impl = C.implrun(cases)
    model = C.modelrun(cases)
    mism = 0
    for i, (mo, io) in enumerate(zip(model, impl)):
        d, k, pd, su = cmeta[i]
        want = "err eof" if k == 0 else "err ueof"
        first = parts(io)[0]
        if first != want:
            res.violation("prefix of length %d of a valid %d-byte pickle gives %r instead of %r" % (k, len(d), first[:80], want),
                          {"kind": "impl", "pickle_hex": d.hex(), "cut": k, "pydict": pd, "strict": su,
                           "observed": io[:300], "cmd": "echo 'dec %s %s 0 %s' | harness/go/implrun" % (pd, su, d[:k].hex())})
        elif classes(mo) != classes(io):
            mism += 1
            if mism <= 5:
                res.violation("correspondence: model %s vs implementation %s on a truncated pickle" % (classes(mo)[:3], classes(io)[:3]),
                              {"kind": "correspondence", "input_hex": d[:k].hex(), "pydict": pd, "strict": su,
                               "model": mo[:300], "impl": io[:300]}, found_input=False)
    res.coverage.update({
        "evaluations": len(cases), "distinct_nontrivial": len(set((m[0], m[1]) for m in cmeta if m[1] > 0)),
        "rule": "valid pickles (generated, long-line/LONG1/8-byte-length/frame specials, valid corpus files) x every cut position (all cuts up to 300 bytes, first/last 64 and a 64-step grid beyond) x 4 configs; non-trivial = distinct (pickle, cut>0)",
        "programs": len(cases), "disagreements_checked": len(cases), "valid_pickle_runs": nvalid,
        "opcode_histogram_generated": hist})
    res.samples = [{"pickle_hex": cmeta[i][0].hex()[:100], "cut": cmeta[i][1], "impl": impl[i][:80]}
                   for i in range(0, len(cases), max(1, len(cases) // 6))]

import props_dict
import props_conv
import props_enc
