"""Per-property checks: generated domain, correspondence (model vs implementation) on
projected observables, and the property's direct oracle on the implementation."""
import glob, os, re, struct
import common as C
import genprog as G

CONFIGS = [("0", "0"), ("0", "1"), ("1", "0"), ("1", "1")]
CHECKS = {}


def check(pid):
    def deco(f):
        CHECKS[pid] = f
        return f
    return deco

# ---- shared: the decoder input domain -------------------------------------------------------
def model_ok_input(d):
    """inputs the extracted model evaluates in reasonable time (decimal parsing of huge
    integers is quadratic in the unary-free but list-based N of the extraction)"""
    return len(d) <= 16384 and not re.search(rb"[0-9]{3000,}", d)

def corpus_files():
    out = []
    for f in sorted(glob.glob(os.path.join(C.REPO, "fuzz", "corpus", "*"))):
        try:
            d = open(f, "rb").read()
        except OSError:
            continue
        out.append(d)
    return out

def kept_corpus(pid):
    out = []
    for f in sorted(glob.glob(os.path.join(C.VERIF, "corpus", pid, "*.hex"))):
        for line in open(f):
            line = line.strip()
            if line and not line.startswith("#"):
                out.append(bytes.fromhex(line))
    return out

def gen_pickles(rng, n, **kw):
    out, hist = [], {}
    for i in range(n):
        g = G.ProgGen(rng.fork("p%d" % i), **kw)
        out.append(g.pickle())
        for k, v in g.ops.items():
            hist[k] = hist.get(k, 0) + v
    return out, hist

def decoder_domain(rng, tier, pid, scale=1.0, sweep=True):
    """list of (tag, bytes): kept failures first, then corpus, generated, mutated, soup, bombs"""
    q = tier == "quick"
    dom = [("kept", d) for d in kept_corpus(pid)]
    corp = [d for d in corpus_files() if model_ok_input(d)]
    r = rng.fork("corpus")
    ncorp = int(700 * scale)
    if q and len(corp) > ncorp:
        idx = sorted(set(r.below(len(corp)) for _ in range(ncorp)))
        corp_s = [corp[i] for i in idx]
    else:
        corp_s = corp
    dom += [("corpus", d) for d in corp_s]
    gen, hist = gen_pickles(rng.fork("gen"), int((1500 if q else 20000) * scale))
    dom += [("gen", d) for d in gen]
    r = rng.fork("mut")
    base = gen + corp_s
    for i in range(int((1500 if q else 20000) * scale)):
        dom.append(("mut", G.mutate(r, r.choice(base), 1 + r.below(3))))
    r = rng.fork("soup")
    for i in range(int((800 if q else 10000) * scale)):
        dom.append(("soup", G.random_opcode_soup(r, 1 + r.below(40))))
    dom += [("bomb", d) for d in G.length_bombs()]
    dom += [("escape", d) for d in escape_programs()]
    # keys that cannot be hashed (list / dict / bytearray behind Tuple, Call, Ref wrappers, wide tuples) in
    # every dict-building opcode: the error paths of both dict modes
    import props_dict
    for name, key in props_dict.unhashable_key_programs():
        dom += [("unhashable", b"(" + key + b"Nd."), ("unhashable", b"}" + key + b"Ns."), ("unhashable", b"}(" + key + b"Nu."),
                ("unhashable", b"}q\x00(K\x01N" + key + b"h\x00u.")]
    if sweep:
        dom += [("sweep", d) for d in G.stack_sweep()]
    dom += [("builtin", d) for d in builtin_call_programs()]
    # bytes between the pickles of a stream: nothing after STOP is ever skipped (a newline, space, NUL, CR LF is the
    # next opcode byte and an error), whatever the delivery
    for sepb in (b"\n", b" ", b"\r\n", b"\x00", b"\n\n", b"\t"):
        for a, b_ in ((b"I1\n.", b"I2\n."), (b"K\x01.", b"K\x02."), (b"\x80\x02N.", b"\x80\x02N."), (b"S'a'\n.", b"V\n.")):
            dom += [("sep", a + sepb + b_), ("sep", a + sepb), ("sep", sepb + a)]
    r = rng.fork("cyc")
    dom += [("cyclic", d) for d in G.cyclic_operand_programs() if sweep or r.below(8) == 0]
    dom = [(t, d) for (t, d) in dom if model_ok_input(d) or (t == "bomb" and len(d) <= 80000)]
    return dom, hist

def builtin_call_programs():
    """REDUCE (and NEWOBJ) of Python builtins a decoder might be tempted to interpret: they all stay symbolic Calls
    except the two documented ones (bytearray, _codecs.encode); module names of both Python lines, under each
    announced protocol, with the argument shapes CPython writes; plus one pickle holding two globals that differ
    only in where the dot sits"""
    out = [b"(cos.path\njoin\ncos\npath.join\nt.", b"\x80\x04(\x8c\x07os.path\x8c\x04join\x93\x8c\x02os\x8c\x09path.join\x93cos.path\njoin\nt."]
    names = [b"complex", b"set", b"frozenset", b"long", b"int", b"float", b"str", b"unicode", b"bytes", b"list", b"tuple", b"dict",
             b"bool", b"range", b"xrange", b"slice", b"object", b"bytearray"]
    f1, f2 = b"G\x3f\xf0\x00\x00\x00\x00\x00\x00", b"G\x40\x00\x00\x00\x00\x00\x00\x00"
    args = [f1 + f2 + b"\x86", b")", f1 + b"\x85", b"K\x01\x85", b"X\x01\x00\x00\x00a\x85", b"U\x01a\x85", b"C\x01a\x85", b"]K\x01a\x85",
            b"K\x00K\x05K\x01\x87", b"(K\x01K\x02t", b"N"]
    for mod in (b"__builtin__", b"builtins", b"copy_reg", b"collections"):
        for nm in names:
            g = b"c" + mod + b"\n" + nm + b"\n"
            for a in args:
                for pre in (b"", b"\x80\x02", b"\x80\x03"):
                    out.append(pre + g + a + b"R.")
            out.append(b"\x80\x02" + g + b")\x81.")
            out.append(b"}" + g + f1 + f2 + b"\x86RNs.")          # as a dict key
    # the two interpreted callables on text that is not valid UTF-8 / not latin-1: truncated and overlong sequences,
    # lone lead and continuation bytes at the end, in the middle, doubled
    bad = [b"\xc2", b"\xc3", b"a\xc2", b"ab\xc3", b"\xc3(", b"\xc2\xc2", b"\xc3\xff", b"\xe2\x82", b"\xf0\x9f\x98", b"\xc1\x80", b"\xc0\xaf",
           b"\x80", b"\xbf", b"\xc2\x80\xc3", b"\xed\xa0\x80", b"\xc3\xa9\xc2", b"\xc4\x80", b"\xc3\xbf\xc4", b"\xff", b"\xc2\x7f", b"\xc3\xc0"]
    for t in bad:
        for tf in (b"X" + bytes([len(t), 0, 0, 0]) + t, b"\x8c" + bytes([len(t)]) + t, b"V" + t + b"\n", b"U" + bytes([len(t)]) + t):
            for enc in (b"X\x06\x00\x00\x00latin1", b"U\x07latin-1", b"X\x07\x00\x00\x00latin-1"):
                for pre in (b"", b"\x80\x02", b"\x80\x03"):
                    out.append(pre + b"c_codecs\nencode\n" + tf + enc + b"\x86R.")
                    out.append(pre + b"c__builtin__\nbytearray\n" + tf + enc + b"\x86R.")
                    out.append(pre + b"cbuiltins\nbytearray\n" + tf + enc + b"\x86R.")
    return out

def escape_programs():
    """the escape grammars of the two text decoders, exhaustively at the edges: backslash + every byte,
    octal escapes of 1..4 digits over the boundary digits, \\x / \\u / \\U with every digit count up to
    one too many and a non-digit at every position, in both quote styles / at the end of the payload"""
    out = []
    bodies = [b"\\" + bytes([c]) for c in range(256) if c != 10]
    for a in b"0347":
        bodies.append(b"\\" + bytes([a]))
        for b_ in b"0378":
            bodies.append(b"\\" + bytes([a, b_]))
            for c in b"0178":
                bodies.append(b"\\" + bytes([a, b_, c]))
                bodies.append(b"\\" + bytes([a, b_, c]) + b"7")
    for lead, n in ((b"x", 2), (b"u", 4), (b"U", 8)):
        for k in range(0, n + 2):
            bodies.append(b"\\" + lead + b"f" * k)
            bodies.append(b"\\" + lead + b"0" * k)
            if k: bodies.append(b"\\" + lead + b"1" * (k - 1) + b"g")
        bodies.append(b"\\" + lead + b"0010ffff"[:n])
        bodies.append(b"\\U00110000"); bodies.append(b"\\Uffffffff"); bodies.append(b"\\ud800"); bodies.append(b"\\udfff\\ud800")
    # UTF-16 surrogate escapes as a Python 2 narrow build writes them: pairs, halves, truncated second halves
    for hi in (b"\\ud83d", b"\\ud800", b"\\udbff"):
        for lo in (b"", b"\\", b"\\u", b"\\ud", b"\\ude", b"\\ude0", b"\\ude00", b"\\udc00", b"\\udfff", b"\\u0041", b"\\ud83d", b"\\U0000de00", b"x", b"\\ude00\\ude00"):
            bodies.append(hi + lo)
    bodies += [b"\\ude00\\ud83d", b"\\ude00", b"\\udc00\\udc00"]
    for body in bodies:
        for pre, post in ((b"", b""), (b"a", b"b")):
            t = pre + body + post
            out.append(b"S'" + t + b"'\n.")
            out.append(b'S"' + t + b'"\n.')
            out.append(b"V" + t + b"\n.")
    return out

def dec_lines(dom, lm="0", configs=CONFIGS):
    lines, meta = [], []
    for tag, d in dom:
        for pd, su in configs:
            lines.append("dec %s %s %s %s" % (pd, su, lm, d.hex()))
            meta.append((tag, d, pd, su))
    return lines, meta

def strip_model(s):
    s = re.sub(r" ~stale", "", s)
    s = re.sub(r" #staleappend", "", s)
    return s

def strip_impl(s):
    return re.sub(r" #alloc=\d+", "", s)

def parts(obs):
    """observation -> list of per-Decode results (without the #log / #alloc suffixes)"""
    obs = re.sub(r" #(log|alloc|staleappend).*$", "", obs)
    return obs.split(" | ")

def outcome_class(part):
    """project one Decode result to its class: ok / err <class> / panic / ..."""
    part = part.replace(" ~stale", "")
    return "ok" if part.startswith("ok ") or part == "ok" else part

def classes(obs):
    return [outcome_class(p) for p in parts(obs)]

def tag_hist(meta):
    h = {}
    for m in meta:
        h[m[0]] = h.get(m[0], 0) + 1
    return h

def first_classes_hist(obs_list):
    h = {}
    for o in obs_list:
        c = classes(o)[0] if o else "?"
        c = re.sub(r"opcode:\d+:\d+", "opcode", c)
        h[c] = h.get(c, 0) + 1
    return h

# =============================================================================================
# C04 — Decode is total and resource-safe on arbitrary bytes
# =============================================================================================
def alloc_envelope(n):
    return 1024 * n + (2 << 20)

@check("C04")
def c04(res, rng, tier):
    dom, hist = decoder_domain(rng, tier, "C04")
    # every single byte alone and after one instruction; every PROTO version
    for b in range(256):
        dom.append(("byte", bytes([b])))
        dom.append(("byte", b"K\x01" + bytes([b])))
        dom.append(("proto", b"\x80" + bytes([b]) + b"N."))
    lines, meta = dec_lines(dom)
    impl = C.implrun(lines, extra_args=["-alloc"])
    model = C.modelrun(lines)
    nontrivial = set()
    mism = 0
    for i, (mo, io) in enumerate(zip(model, impl)):
        tag, d, pd, su = meta[i]
        # ---- direct oracle on the implementation
        bad = None
        if io.startswith("TIMEOUT") or "NOPROGRESS" in io:
            bad = "Decode does not terminate / makes no progress"
        elif "panic" in classes(io) or io.startswith("PANIC") or io.startswith("CRASHED"):
            bad = "Decode panics"
        else:
            m = re.search(r"#alloc=(\d+)", io)
            if m and int(m.group(1)) > alloc_envelope(len(d)):
                bad = "Decode allocates %s bytes for %d input bytes (envelope %d)" % (m.group(1), len(d), alloc_envelope(len(d)))
        if bad:
            res.violation(bad, {"kind": "impl", "input_hex": d.hex(), "pydict": pd, "strict": su,
                                "observed": io[:500], "cmd": "echo 'dec %s %s 0 %s' | harness/go/implrun -alloc" % (pd, su, d.hex())})
            continue
        # ---- correspondence on the projected observable: the class of every Decode result
        if "#staleappend" in mo:
            continue
        ci, cm = classes(io), classes(mo)
        if ci != cm:
            mism += 1
            if mism <= 5:
                res.violation("correspondence: outcome classes differ (model %s, implementation %s)" % (cm[:4], ci[:4]),
                              {"kind": "correspondence", "input_hex": d.hex(), "pydict": pd, "strict": su,
                               "model": mo[:500], "impl": strip_impl(io)[:500]}, found_input=False)
        if len(ci) > 1 or ci[0] != "err eof":
            nontrivial.add(d)
    # the two error-shape clauses, stated directly on the implementation
    supported = set()
    for i, (tag, d, pd, su) in enumerate(meta):
        if tag == "byte" and len(d) == 1:
            c0 = classes(impl[i])[0]
            if c0 != "err opcode:%d:1" % d[0]:
                supported.add(d[0])
    for i, (tag, d, pd, su) in enumerate(meta):
        c0 = classes(impl[i])[0]
        if tag == "byte" and len(d) == 3 and d[2] not in supported and c0 != "err opcode:%d:2" % d[2]:
            res.violation("unsupported opcode byte %d not reported as OpcodeError{%d,2}: %s" % (d[2], d[2], c0),
                          {"kind": "impl", "input_hex": d.hex(), "pydict": pd, "strict": su, "observed": impl[i][:300]})
        if tag == "proto" and d[1] > 5 and c0 != "err badversion":
            res.violation("PROTO %d not rejected with ErrInvalidPickleVersion: %s" % (d[1], c0),
                          {"kind": "impl", "input_hex": d.hex(), "pydict": pd, "strict": su, "observed": impl[i][:300]})
    res.coverage.update({
        "evaluations": len(lines), "distinct_nontrivial": len(nontrivial),
        "rule": "inputs = kept failures + fuzz corpus + grammar pickles + mutations + opcode soup + length bombs + every byte / PROTO version, x4 configs; non-trivial = distinct input whose first Decode is not a bare io.EOF",
        "programs": len(lines), "disagreements_checked": len(lines),
        "input_tags": tag_hist(meta), "first_outcome_classes": first_classes_hist(impl),
        "opcode_histogram_generated": hist, "supported_opcode_bytes": len(supported)})
    res.samples = [{"input_hex": meta[i][1].hex()[:120], "impl": strip_impl(impl[i])[:160], "model": model[i][:160]}
                   for i in range(0, len(lines), max(1, len(lines) // 6))]

# =============================================================================================
# C10 — truncated input is io.ErrUnexpectedEOF, exhausted input is io.EOF
# =============================================================================================
def cut_positions(n, all_limit=300):
    if n <= all_limit:
        return list(range(n))
    s = set(range(64)) | set(range(n - 64, n))
    s |= set(range(0, n, max(1, n // 64)))
    for b in range(4096, n + 1, 4096):          # around every multiple of bufio's buffer size
        s |= set(range(b - 12, b + 20))
    s |= set(range(4096, min(n, 4400), 7))
    for b in (65536, 65536 + 4096, 2 * 65536):  # around the 64 KiB preallocation limit
        s |= set(range(b - 3, b + 12))
    if n > 20000:                               # huge payloads: a few cuts at the places that matter
        s = {0, 1, 2, 4, 5, 6, 9, 10, 13, 14, 100, 4095, 4096, 4097, 8192, 8193, n // 3, n // 2, 65535, 65536, 65537, 65540, 65541, 65545,
             65546, 66004, 66005, 66006, 66010, 69632, 69633, 70000, 2 * 65536, 2 * 65536 + 1, n - 4097, n - 4096, n - 3, n - 2, n - 1}
    return sorted(k for k in s if 0 <= k < n)

def valid_pickles(rng, tier, extra=()):
    """pickles that the implementation decodes successfully, consuming them entirely"""
    q = tier == "quick"
    cand = list(extra)
    gen, hist = gen_pickles(rng.fork("valid"), 400 if q else 5000)
    cand += gen
    # long text lines (> 4096 bytes: longer than bufio's buffer), LONG1, 8-byte lengths, frames
    big = b"a" * 5000
    cand += [b"S'" + big + b"'\n.", b"V" + big + b"\n.", b"I" + b"1" * 300 + b"\n.", b"L" + b"7" * 300 + b"L\n.",
             b"\x80\x05\x95" + struct.pack("<Q", 20) + b"\x96" + struct.pack("<Q", 5) + b"hello.",
             b"\x8a\xff" + b"\x01" * 255 + b".", b"\x8a\x80" + b"\x7f" * 128 + b".",
             b"c" + big + b"\n" + big + b"\n.", b"(I1\nI2\nF1.5\nS'x'\nl.", b"P" + big + b"\n.",
             # long lines dense with escapes: almost every cut lands inside an escape sequence
             b"V" + b"\\u0100" * 800 + b"\n.", b"V" + b"a\\U0001f600" * 500 + b"\n.",
             b"S'" + b"\\'" * 2500 + b"'\n.", b'S"' + b'\\"\\x41\\n' * 700 + b'"\n.',
             b"S'" + b"\\\\" * 2100 + b"'\n.", b"V" + b"\\\\u0041" * 700 + b"\n.",
             b"(V" + b"\\u00e9" * 700 + b"\nS'" + b"\\x00" * 1100 + b"'\nt."]
    # payloads larger than any internal chunk / preallocation limit (64 KiB), in every counted form
    huge = bytes(range(32, 127)) * 800            # 76000 bytes
    cand += [b"T" + struct.pack("<I", len(huge)) + huge + b".", b"B" + struct.pack("<I", len(huge)) + huge + b".",
             b"X" + struct.pack("<I", len(huge)) + huge + b".",
             b"\x80\x05\x96" + struct.pack("<Q", len(huge)) + huge + b".",
             b"\x80\x04]\x94(B" + struct.pack("<I", 66000) + huge[:66000] + b"X" + struct.pack("<I", 70000) + huge[:70000] + b"e."]
    # 4-byte memo operands, and frames wrapped around memo traffic
    cand += [b"]r\x00\x01\x00\x00j\x00\x01\x00\x00\x86.", b"\x80\x02}r\xff\xff\x00\x00(K\x01j\xff\xff\x00\x00u.",
             b"\x80\x04\x95\x10\x00\x00\x00\x00\x00\x00\x00]\x94(K\x01h\x00e\x95\x02\x00\x00\x00\x00\x00\x00\x00N0."]
    cand += [d for d in corpus_files() if model_ok_input(d)][: (300 if q else 3000)]
    return cand, hist

@check("C10")
def c10(res, rng, tier):
    cand, hist = valid_pickles(rng, tier, extra=kept_corpus("C10"))
    lines, meta = dec_lines([("cand", d) for d in cand])
    whole = C.implrun(lines)
    cases, cmeta = [], []
    nvalid = 0
    for i, o in enumerate(whole):
        tag, d, pd, su = meta[i]
        p = parts(o)
        if len(p) == 2 and p[0].startswith("ok ") and p[1] == "err eof":
            nvalid += 1
            for k in cut_positions(len(d)):
                cases.append("dec %s %s 0 %s" % (pd, su, d[:k].hex()))
                cmeta.append((d, k, pd, su))
    impl = C.implrun(cases)
    model = C.modelrun(cases)
    # the same prefixes from a Reader that hands over its last bytes TOGETHER with io.EOF (one Read, and 3-byte Reads):
    # how the end of the input is signalled must not change the verdict
    ecases, emeta = [], []
    for j in range(0, len(cases), 4):           # one configuration per prefix
        d, k, pd, su = cmeta[j]
        for sched in ("%dE" % max(k, 1), "3*E"):
            ecases.append("decchunk %s %s 0 %s %s" % (pd, su, sched, d[:k].hex())); emeta.append((d, k, pd, su, sched))
    eimpl = C.implrun(ecases)
    for (d, k, pd, su, sched), io in zip(emeta, eimpl):
        want = "err eof" if k == 0 else "err ueof"
        first = parts(io)[0]
        if first != want:
            res.violation("prefix of length %d of a valid %d-byte pickle, last bytes delivered together with io.EOF (schedule %s), gives %r instead of %r"
                          % (k, len(d), sched, first[:80], want),
                          {"kind": "impl", "pickle_hex": d.hex(), "cut": k, "pydict": pd, "strict": su, "schedule": sched,
                           "observed": io[:300], "cmd": "echo 'decchunk %s %s 0 %s %s' | harness/go/implrun" % (pd, su, sched, d[:k].hex())})
    mism = 0
    for i, (mo, io) in enumerate(zip(model, impl)):
        d, k, pd, su = cmeta[i]
        want = "err eof" if k == 0 else "err ueof"
        first = parts(io)[0]
        if first != want:
            res.violation("prefix of length %d of a valid %d-byte pickle gives %r instead of %r" % (k, len(d), first[:80], want),
                          {"kind": "impl", "pickle_hex": d.hex(), "cut": k, "pydict": pd, "strict": su,
                           "observed": io[:300], "cmd": "echo 'dec %s %s 0 %s' | harness/go/implrun" % (pd, su, d[:k].hex())})
        elif classes(mo) != classes(io):
            mism += 1
            if mism <= 5:
                res.violation("correspondence: model %s vs implementation %s on a truncated pickle" % (classes(mo)[:3], classes(io)[:3]),
                              {"kind": "correspondence", "input_hex": d[:k].hex(), "pydict": pd, "strict": su,
                               "model": mo[:300], "impl": io[:300]}, found_input=False)
    res.coverage.update({
        "evaluations": len(cases) + len(ecases), "eof_with_data_runs": len(ecases), "distinct_nontrivial": len(set((m[0], m[1]) for m in cmeta if m[1] > 0)),
        "rule": "valid pickles (generated, long-line/LONG1/8-byte-length/frame specials, valid corpus files) x every cut position (all cuts up to 300 bytes, first/last 64 and a 64-step grid beyond) x 4 configs; non-trivial = distinct (pickle, cut>0)",
        "programs": len(cases), "disagreements_checked": len(cases), "valid_pickle_runs": nvalid,
        "opcode_histogram_generated": hist})
    res.samples = [{"pickle_hex": cmeta[i][0].hex()[:100], "cut": cmeta[i][1], "impl": impl[i][:80]}
                   for i in range(0, len(cases), max(1, len(cases) // 6))]

import props_dict
import props_conv
import props_enc

# =============================================================================================
# C16 — results contain only documented types, consistent with the decoder mode
# =============================================================================================
def undocumented_in(dump, pd, su, lm):
    """why a dumped result violates the documented type table for this mode, or None"""
    for t in dump.split():
        if t.startswith("UNDOCUMENTED") or t == "MARK" or t == "NIL":
            return "value of an undocumented type in the result: %s" % t
        if t.startswith("z:") and su != "1": return "ByteString in a result with StrictUnicode off"
        if t == "d{" and pd != "1": return "Dict in a result with PyDict off"
        if t == "m{" and pd != "0": return "builtin map in a result with PyDict on"
        if t.startswith("U:") and lm == "0": return "foreign object without PersistentLoad"
        if t.startswith(("u:", "x:")): return "unsigned / complex value in a result"
    return None

def mark_placement_programs():
    """MARK directly under every consuming opcode, in every operand position"""
    out = []
    vals = [b"K\x01", b"]", b"}", b")", b"cm\nC\n", b"X\x01\x00\x00\x00a"]
    ops = [b"a", b"e", b"s", b"u", b"d", b"l", b"t", b"\x85", b"\x86", b"\x87", b"R", b"Q", b"\x93", b"2", b"0",
           b"p0\n", b"q\x00", b"r\x00\x00\x00\x00", b"\x94", b".", b"\x85.", b"Q."]
    for op in ops:
        for a in [b""] + vals:
            for b in [b""] + vals:
                for where in range(3):
                    items = [a, b]
                    items.insert(where, b"(")
                    out.append(b"".join(items) + op + b".")
                    out.append(b"]" + b"".join(items) + op + b"a.")
                    out.append(b"}K\x01" + b"".join(items) + op + b"s.")
    # a mark duplicated by DUP (and popped / re-pushed) below the mark-delimited opcodes: the topmost
    # mark delimits, the copy must never be taken for an item
    for op in (b"t", b"l", b"d", b"e", b"u", b"\x85", b"\x86", b"Q", b"a", b"s", b"R"):
        for pre in (b"(2", b"(22", b"K\x01(2", b"](2", b"}(2", b"((02", b"(2K\x01", b"(K\x012", b"(2K\x01K\x02"):
            for post in (b".", b"\x85.", b"Q.", b"t.", b"0."):
                out.append(pre + op + post)
    return out

@check("C16")
def c16(res, rng, tier):
    dom, hist = decoder_domain(rng, tier, "C16")
    dom += [("markpos", d) for d in mark_placement_programs()]
    lines, meta = [], []
    r = rng.fork("lm")
    for tag, d in dom:
        for pd, su in CONFIGS:
            lms = ["0", "1", "2", "4"] if tag in ("markpos", "kept") or b"Q" in d or b"P" in d else ["0"]
            if tag == "sweep" and (b"Q" in d or b"P" in d): lms = ["0", "1", "2"]
            for lm in lms:
                lines.append("dec %s %s %s %s" % (pd, su, lm, d.hex())); meta.append((tag, d, pd, su, lm))
    impl = C.implrun(lines)
    model = C.modelrun(lines)
    nontriv = 0
    mism = 0
    for i, (mo, io) in enumerate(zip(model, impl)):
        tag, d, pd, su, lm = meta[i]
        body, _, log = io.partition(" #log ")
        bad = None
        for p in parts(body):
            if p.startswith("ok "):
                bad = undocumented_in(p[3:], pd, su, lm)
                if bad: break
        if not bad and log:
            bad = undocumented_in(log.replace(" ; ", " "), pd, su, "1")
            if bad: bad = "argument passed to PersistentLoad: " + bad
        if bad:
            res.violation(bad, {"kind": "impl", "input_hex": d.hex(), "pydict": pd, "strict": su, "load_mode": lm,
                                "observed": io[:500], "cmd": "echo '%s' | harness/go/implrun" % lines[i][:300]})
            continue
        if "#staleappend" in mo:
            continue
        if strip_model(mo) != io:
            mism += 1
            if mism <= 5:
                res.violation("correspondence: model and implementation decode differently",
                              {"kind": "correspondence", "input_hex": d.hex(), "pydict": pd, "strict": su, "load_mode": lm,
                               "model": mo[:500], "impl": io[:500]}, found_input=False)
        if any(p.startswith("ok ") for p in parts(body)):
            nontriv += 1
    res.coverage.update({
        "evaluations": len(lines), "distinct_nontrivial": nontriv,
        "rule": "C04 input stream (corpus, grammar pickles, mutations, soup, bombs, exhaustive opcode x small-stack sweep) + MARK placed under every consuming opcode in every operand position, x 4 configs x PersistentLoad {unset, keep, replace, replace-strings-only}; every successful result and every Ref handed to PersistentLoad is walked against the type whitelist of its mode; non-trivial = runs with at least one successful Decode",
        "programs": len(lines), "disagreements_checked": len(lines), "input_tags": tag_hist(meta)})
    res.samples = [{"input_hex": meta[i][1].hex()[:100], "cfg": meta[i][2:], "impl": impl[i][:160]}
                   for i in range(0, len(lines), max(1, len(lines) // 6))]

# =============================================================================================
# C11 — a stream of pickles decodes one value per call, each as if it stood alone
# =============================================================================================
def memo_free(p):
    """no GET-family opcode: cannot refer to memo entries of another pickle"""
    import pickletools
    try:
        return not any(op.name in ("GET", "BINGET", "LONG_BINGET") for op, a, pos in pickletools.genops(p))
    except Exception:
        return False

@check("C11")
def c11(res, rng, tier):
    q = tier == "quick"
    # self-contained pickles: grammar pickles (their GETs refer to their own PUTs), plus
    # hand-assembled memo-free programs leaving extra operands / marks behind, plus errors at the last byte
    # (MEMOIZE keys depend on how many entries earlier pickles left in the shared memo - in CPython
    #  too - so a pickle that fetches what it MEMOIZEd is not self-contained inside a stream)
    gen, hist = gen_pickles(rng.fork("gen"), 600 if q else 8000, allow_memoize=False)
    hand = [b"K\x01K\x02.", b"K\x01K\x02K\x03.", b"(K\x01.", b"((K\x05.", b"]K\x01.", b"\x80\x03N.", b"\x80\x05K\x07.", b".",
            b"K\x01\x85K\x02.", b"\x80\x02}.", b"(.", b"N0.", b"K\x01\xff", b"\x80\x09", b"I1\nK\x02.",
            b"\x80\x01c__builtin__\nbytearray\nC\x02ab\x85R.", b"c__builtin__\nbytearray\nC\x02ab\x85R.",
            b"\x80\x03cbuiltins\nbytearray\nC\x02ab\x85R.", b"cbuiltins\nbytearray\nC\x02ab\x85R.",
            b"\x96\x0c\x00\x00\x00\x00\x00\x00\x00hello, world.", b"U\x08XXXXXXXX.", b"C\x05abcde.", b"T\x03\x00\x00\x00xyz.",
            b"\x8c\x04wxyz.", b"B\x02\x00\x00\x00pq.", b"\x96\x02\x00\x00\x00\x00\x00\x00\x00zz.", b"X\x03\x00\x00\x00abc.",
            b"]q\x00K\x01a.", b"}q\x01K\x01K\x02s.", b"]\x94(K\x01K\x02e.",
            # operands that differ only in where the bytes are split between two fields: anything remembered across
            # calls under a joined key confuses them
            b"cos.path\njoin\n.", b"cos\npath.join\n.", b"ca\nb\n.", b"c\na.b\n.", b"ca.b\n\n.",
            b"\x80\x04\x8c\x07os.path\x8c\x04join\x93.", b"\x80\x04\x8c\x02os\x8c\x09path.join\x93.",
            b"cos.path\njoin\n)R.", b"cos\npath.join\n)R.", b"Pos.path join\n.", b"Pos.path\n.", b"S'os.path'\n."]
    # FRAME announcements that do not match what follows (the decoder ignores the number): shorter, longer than the
    # pickle, longer than the read buffer, absurd - alone and followed by other pickles the result is the same
    for flen in (0, 1, 3, 4, 5, 50, 4000, 4096, 5000, 2**32, 2**63 - 1, 2**64 - 1):
        hand.append(b"\x80\x04\x95" + struct.pack("<Q", flen) + b"K\x01.")
    hand.append(b"\x80\x04\x95" + struct.pack("<Q", 9) + b"]\x94(K\x01K\x02e\x95" + struct.pack("<Q", 100) + b".")
    # text lines longer than bufio's 4096-byte buffer (readLine's slow path keeps per-Decoder state)
    longs = [b"S'" + b"a" * 5000 + b"'\n.", b"V" + b"b" * 6000 + b"\n.", b"I" + b"1" * 4200 + b"\n.", b"L" + b"7" * 4300 + b"L\n.",
             b"c" + b"m" * 4100 + b"\n" + b"n" * 4200 + b"\n.", b"P" + b"p" * 5000 + b"\n.", b"\x80\x02V" + b"\\u00e9" * 900 + b"\n."]
    pool = gen + hand * 8 + longs[:3]
    r = rng.fork("streams")
    streams = []
    for _ in range(1500 if q else 20000):
        n = 1 + r.below(8)
        streams.append([r.choice(pool) for _ in range(n)])
    # every ordered pair of the hand-assembled ones (state left behind by the first)
    for a in hand:
        for b in hand:
            streams.append([a, b])
    for a in longs:
        for b in longs:
            streams.append([a, b]); streams.append([a, hand[0], b])
    lines, meta = [], []
    singles = {}
    for s in streams:
        for pd, su in CONFIGS:
            lines.append("dec %s %s 0 %s" % (pd, su, b"".join(s).hex())); meta.append((s, pd, su))
            for p in s:
                singles[(p, pd, su)] = None
    skeys = list(singles)
    slines = ["dec %s %s 0 %s" % (pd, su, p.hex()) for (p, pd, su) in skeys]
    impl = C.implrun(lines + slines)
    model = C.modelrun(lines + slines)
    for k, o, mo in zip(skeys, impl[len(lines):], model[len(lines):]):
        singles[k] = parts(o)
        if "#staleappend" not in mo and strip_model(mo) != o:
            res.violation("correspondence: model and implementation differ on a pickle decoded alone",
                          {"kind": "correspondence", "input_hex": k[0].hex(), "pydict": k[1], "strict": k[2], "model": mo[:500], "impl": o[:500]}, found_input=False)
    nontriv = 0
    mism = 0
    for i in range(len(lines)):
        s, pd, su = meta[i]
        io, mo = impl[i], model[i]
        got = parts(io)
        # expected: each pickle's own first result (its value, or its error if that error is
        # raised exactly at its last byte), then io.EOF
        want, ok_expect = [], True
        for p in s:
            alone = singles[(p, pd, su)]
            first = alone[0]
            # a pickle is self-contained for this purpose if decoding it alone consumes it exactly:
            # ok | eof, or err | eof
            if len(alone) != 2 or alone[1] != "err eof":
                ok_expect = False
                break
            want.append(first)
        if not ok_expect:
            continue
        want.append("err eof")
        if got != want:
            k = next((j for j in range(min(len(got), len(want))) if got[j] != want[j]), min(len(got), len(want)))
            res.violation("stream of %d pickles: call %d returns %s, the pickle alone gives %s"
                          % (len(s), k + 1, (got[k] if k < len(got) else "nothing")[:120], (want[k] if k < len(want) else "nothing")[:120]),
                          {"kind": "impl", "pickles_hex": [p.hex() for p in s], "pydict": pd, "strict": su,
                           "stream": io[:600], "alone": want[:12], "cmd": "echo '%s' | harness/go/implrun" % lines[i][:400]})
            continue
        if "#staleappend" not in mo and strip_model(mo) != io:
            mism += 1
            if mism <= 5:
                res.violation("correspondence: model and implementation differ on a stream",
                              {"kind": "correspondence", "pickles_hex": [p.hex() for p in s], "pydict": pd, "strict": su,
                               "model": mo[:500], "impl": io[:500]}, found_input=False)
        nontriv += 1
    # how many of these calls satisfy the hypothesis of the two memo theorems (AloneFacts.self_contained)
    mf = C.modelrun(["memofree %s %s %s" % (pd, su, " ".join(p.hex() for p in s)) for (s, pd, su) in meta[::4]])
    mf_calls = sum(len(x.split()) for x in mf)
    mf_in = sum(1 for x in mf for t in x.split() if t[0] == "1")
    sc_in = sum(1 for x in mf for t in x.split() if t[1] == "1")
    # values already returned are not altered by later Decode calls: implrun keeps every value and
    # dumps them all AFTER the last call; compared with dumps taken right after each call
    alines = ["decstable %s %s %s" % (pd, su, b"".join(s).hex()) for (s, pd, su) in meta[::2]]
    ares = C.implrun(alines)
    for j, o in enumerate(ares):
        if o != "stable":
            s, pd, su = meta[::2][j]
            res.violation("a value returned by an earlier Decode call was altered by a later call: %s" % o[:200],
                          {"kind": "impl", "pickles_hex": [p.hex() for p in s], "pydict": pd, "strict": su, "observed": o[:600],
                           "cmd": "echo '%s' | harness/go/implrun" % alines[j][:400]})
    # streams whose pickles DO share the memo (stream theorem C11_stream_against_cpython: Proofs/SimFacts.v
    # stream_sim): successive load() calls on ONE CPython Unpickler are the reference; the model's
    # PyVM2.qload_all must agree with them wherever it answers, and the implementation's successive
    # Decode calls must return values equivalent to CPython's
    import pyref as R
    gen2, _ = gen_pickles(rng.fork("gen2"), 300 if q else 4000, allow_memoize=True)
    shared = [b"]q\x00.", b"h\x00.", b"]q\x01K\x01a.", b"h\x01h\x00\x86.", b"}q\x02.", b"h\x02K\x01K\x02s.", b"h\x02.", b"\x80\x04]\x94.", b"\x80\x04K\x05\x94.",
              b"(h\x00h\x02t.", b"K\x07q\x00.", b"g0\n.", b"X\x01\x00\x00\x00aq\x05.", b"h\x05h\x05\x86."]
    pool2 = gen2 + shared * (len(gen2) // 30 + 1)
    r2 = rng.fork("streams2")
    mstreams = [[r2.choice(pool2) for _ in range(1 + r2.below(6))] for _ in range(300 if q else 5000)]
    mstreams += [[shared[0], shared[1]], [shared[2], shared[3]], [shared[4], shared[5], shared[6]], [shared[7], shared[8], b"h\x00h\x01\x86."],
                 [shared[10], shared[11], shared[0], shared[1]], [shared[12], shared[13]]]
    mlines = ["dec 1 1 0 %s" % b"".join(s_).hex() for s_ in mstreams]
    mimpl = C.implrun(mlines)
    mmodel = C.modelrun(["decfinal" + l[3:] for l in mlines])   # implrun dumps every value after the last call
    qls = C.modelrun(["qloads " + " ".join(p.hex() for p in s_) for s_ in mstreams])
    sstats = {"streams": len(mstreams), "cpython_all_loaded": 0, "pyvm2_answers": 0, "impl_calls_compared": 0, "stale": 0}
    for k, s_ in enumerate(mstreams):
        try:
            ref = R.pyload_stream(b"".join(s_), True)
        except RecursionError:
            continue
        if "#staleappend" not in mmodel[k] and strip_model(mmodel[k]) != mimpl[k]:
            res.violation("correspondence: model and implementation differ on a memo-sharing stream",
                          {"kind": "correspondence", "pickles_hex": [p.hex() for p in s_], "model": mmodel[k][:500], "impl": mimpl[k][:500]}, found_input=False)
            continue
        allok = len(ref) == len(s_) and all(o for o, _ in ref)
        if not allok:
            continue
        sstats["cpython_all_loaded"] += 1
        ql = qls[k]
        if ql not in ("NODIS", "GIVEUP") and "DEEP" not in ql:
            qparts = ql.split(" | ")
            good = len(qparts) == len(ref)
            try:
                for qp, (_, obj) in zip(qparts, ref):
                    fl = {}
                    if not (qp.startswith("ok ") and R.equiv(R.parse_go(qp[3:]), obj, True, flags=fl)) and not fl.get("multi"):
                        good = False
                sstats["pyvm2_answers"] += 1
                if not good:
                    res.violation("the CPython machine of the model (PyVM2.qload_all) and CPython's successive load() calls on one Unpickler differ: %s vs %r" % (ql[:160], [o for _, o in ref][:4]),
                                  {"kind": "correspondence", "theorem": "PyVM2.qload_all (specification of C11_stream_against_cpython)", "pickles_hex": [p.hex() for p in s_],
                                   "pyvm2": ql[:800], "cpython": repr([o for _, o in ref])[:800]})
                    continue
            except (R.Cyclic, RecursionError):
                pass
        if "~stale" in mmodel[k] or "#staleappend" in mmodel[k]:
            sstats["stale"] += 1
            continue
        got = parts(mimpl[k])
        for j, (_, obj) in enumerate(ref):
            try:
                fl = {}
                okj = j < len(got) and got[j].startswith("ok ") and (got[j] == "ok TOOBIG" or R.equiv(R.parse_go(got[j][3:]), obj, True, flags=fl))
            except (R.Cyclic, RecursionError):
                break
            if fl.get("multi"):
                break
            if not okj:
                res.violation("memo-sharing stream: call %d returns %s, CPython's load() number %d on one Unpickler returns %r"
                              % (j + 1, (got[j] if j < len(got) else "nothing")[:140], j + 1, obj),
                              {"kind": "impl", "pickles_hex": [p.hex() for p in s_], "pydict": "1", "strict": "1", "stream": mimpl[k][:600],
                               "cpython": repr([o for _, o in ref])[:600], "cmd": "echo '%s' | harness/go/implrun" % mlines[k][:400]})
                break
            sstats["impl_calls_compared"] += 1
    res.coverage.update({
        "memo_sharing_streams": sstats, "calls_checked_for_memo_freedom": mf_calls, "calls_executing_no_memo_opcode": mf_in, "calls_self_contained_(hypothesis_of_the_two_memo_theorems)": sc_in,
        "evaluations": len(lines) + len(slines) + len(alines) + len(mlines), "distinct_nontrivial": nontriv,
        "rule": "streams of 1..8 self-contained pickles (grammar pickles at mixed protocols, hand-assembled memo-free programs leaving extra operands / marks / a protocol number / buffer contents behind, pickles failing at their last byte) + all ordered pairs of the hand-assembled ones, x 4 configs; each call compared with the same pickle decoded alone; earlier results re-dumped after the last call; non-trivial = streams whose every call matched",
        "programs": len(lines), "disagreements_checked": len(lines), "opcode_histogram_generated": hist})
    res.samples = [{"pickles_hex": [p.hex()[:40] for p in meta[i][0]], "impl": impl[i][:160]} for i in range(0, len(lines), max(1, len(lines) // 6))]
import props_py
import props_misc
