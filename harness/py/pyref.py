"""The reference for C01 / C02 / C06 / C09: CPython's own unpickler (pickle._Unpickler, the pure
Python one, so that classes and persistent ids can be kept symbolic), parameterised by the
decoder mode exactly as doc.go documents it, plus the relation 'denotes the same value'."""
import io, pickle, struct, sys
from fractions import Fraction
import pyvals as PV
from pyvals import Py2Str, Global, Call, PRef, User

sys.setrecursionlimit(20000)

class BigInt(int):
    """an int produced by LONG/LONG1 (or an INT too large for int64): *big.Int on the Go side,
    whose identity as a builtin-map key is the pointer"""
    pass

class TraceDict(dict):
    """a dict that also remembers every assignment in order (keys by identity)"""
    def __init__(self):
        super().__init__()
        self.trace = []
    def assign(self, k, v):
        self.trace.append((k, v))
        try:
            dict.__setitem__(self, k, v)
        except TypeError:
            raise

class GoMapKeyError(Exception):
    """the documented exception: a key a Go map cannot hold (default map mode)"""

def _codecs_encode(obj, enc=None):
    raise RuntimeError("unused")

class RefUnpickler(pickle._Unpickler):
    def __init__(self, f, strict):
        super().__init__(f, encoding="utf-8", errors="surrogateescape")
        self.strict = strict
        self.all_dicts = []          # every dict object created, also those the result does not reach

    # -- classes and persistent ids stay symbolic, except the two documented translations
    def find_class(self, module, name):
        return Global(module, name)

    def persistent_load(self, pid):
        return PRef(pid)

    def _decode_string(self, value):
        if self.strict:
            return Py2Str(value)
        return value.decode("utf-8", "surrogateescape")

    def _is_text(self, x, want):
        if isinstance(x, str): return x == want
        if isinstance(x, Py2Str): return x.b == want.encode()
        return False

    def _call(self, func, args):
        if isinstance(func, Global):
            if (func.m, func.n) == ("_codecs", "encode") and len(args) == 2 and self._is_text(args[1], "latin1"):
                if not isinstance(args[0], str):
                    raise TypeError("latin1: arg must be text")
                return args[0].encode("latin1")
            bmod = "__builtin__" if self.proto <= 2 else "builtins"
            if (func.m, func.n) == (bmod, "bytearray"):
                if len(args) == 1:
                    if not isinstance(args[0], bytes):
                        raise TypeError("bytearray: want (bytes,)")
                    return bytearray(args[0])
                if len(args) == 2 and self._is_text(args[1], "latin-1"):
                    if not isinstance(args[0], str):
                        raise TypeError("latin1: arg must be text")
                    return bytearray(args[0].encode("latin1"))
            return Call(func, tuple(args))
        raise TypeError("not callable: %r" % (func,))

    dispatch = dict(pickle._Unpickler.dispatch)

    def load_reduce(self):
        stack = self.stack
        args = stack.pop()
        func = stack[-1]
        if not isinstance(args, tuple):
            raise TypeError("reduce args must be a tuple")
        stack[-1] = self._call(func, args)
    dispatch[pickle.REDUCE[0]] = load_reduce

    # ints: remember which ones are *big.Int on the Go side
    def load_long(self):
        super().load_long()
        self.stack[-1] = BigInt(self.stack[-1])
    dispatch[pickle.LONG[0]] = load_long

    def load_long1(self):
        super().load_long1()
        self.stack[-1] = BigInt(self.stack[-1])
    dispatch[pickle.LONG1[0]] = load_long1

    def load_int(self):
        super().load_int()
        v = self.stack[-1]
        if type(v) is int and not (-2**63 <= v < 2**63):
            self.stack[-1] = BigInt(v)
    dispatch[pickle.INT[0]] = load_int

    # dicts: keep the assignment trace
    def load_empty_dictionary(self):
        d = TraceDict()
        self.all_dicts.append(d)
        self.append(d)
    dispatch[pickle.EMPTY_DICT[0]] = load_empty_dictionary

    def load_dict(self):
        items = self.pop_mark()
        if len(items) % 2:
            raise ValueError("odd number of items for DICT")
        d = TraceDict()
        self.all_dicts.append(d)
        for i in range(0, len(items), 2):
            d.assign(items[i], items[i + 1])
        self.append(d)
    dispatch[pickle.DICT[0]] = load_dict

    def load_setitem(self):
        stack = self.stack
        value = stack.pop()
        key = stack.pop()
        d = stack[-1]
        if not isinstance(d, TraceDict):
            raise TypeError("SETITEM on a non-dict")
        d.assign(key, value)
    dispatch[pickle.SETITEM[0]] = load_setitem

    def load_setitems(self):
        items = self.pop_mark()
        d = self.stack[-1]
        if not isinstance(d, TraceDict):
            raise TypeError("SETITEMS on a non-dict")
        if len(items) % 2:
            raise ValueError("odd number of items for SETITEMS")
        for i in range(0, len(items), 2):
            d.assign(items[i], items[i + 1])
    dispatch[pickle.SETITEMS[0]] = load_setitems

    def load_append(self):
        if not isinstance(self.stack[-2], list):
            raise TypeError("APPEND on a non-list")
        super().load_append()
    dispatch[pickle.APPEND[0]] = load_append

    def load_appends(self):
        items = self.pop_mark()
        l = self.stack[-1]
        if not isinstance(l, list):
            raise TypeError("APPENDS on a non-list")
        l.extend(items)
    dispatch[pickle.APPENDS[0]] = load_appends

    def load_stack_global(self):
        name = self.stack.pop()
        module = self.stack.pop()
        if type(name) is not str or type(module) is not str:
            raise pickle.UnpicklingError("STACK_GLOBAL requires str")
        self.append(self.find_class(module, name))
    dispatch[pickle.STACK_GLOBAL[0]] = load_stack_global

LAST_DICTS = []
def pyload(data, strict):
    """(ok, object or exception); LAST_DICTS = every dict the load created"""
    global LAST_DICTS
    LAST_DICTS = []
    try:
        u = RefUnpickler(io.BytesIO(data), strict)
        obj = u.load()
        LAST_DICTS = u.all_dicts
        return True, obj
    except RecursionError:
        raise
    except BaseException as e:
        return False, e

def pyload_stream(data, strict):
    """successive load() calls on one Unpickler (shared memo), until EOF"""
    out = []
    f = io.BytesIO(data)
    u = RefUnpickler(f, strict)
    while True:
        if f.tell() >= len(data):
            break
        try:
            out.append((True, u.load()))
        except BaseException as e:
            out.append((False, e))
            break
    return out

# ---- Go dump -> comparable objects ---------------------------------------------------------------
class Pairs(list):
    """a Go map / Dict as the list of its (key, value) entries"""
    def __init__(self, kind, items):
        super().__init__(items)
        self.kind = kind

class GoBig(int):
    pass

class GoOdd:
    def __init__(self, t): self.t = t
    def __repr__(self): return "GoOdd(%s)" % self.t
    __hash__ = object.__hash__

class GP(PV.P):
    def value(self):
        t = self.t[self.i]
        if t in ("m{", "d{"):
            self.i += 1
            l = self.until("}")
            return Pairs(t, [(l[i], l[i + 1]) for i in range(0, len(l) - 1, 2)])
        if t.startswith("L:"):
            self.i += 1
            s = t[2:]
            return GoBig(-int(s[1:], 16) if s.startswith("-") else int(s, 16))
        if t.startswith("^"):
            self.i += 1
            return ("cycle", t)
        if t in ("NIL", "MARK") or t.startswith("UNDOCUMENTED"):
            self.i += 1
            return GoOdd(t)          # a Go value no Python object corresponds to
        return super().value()

def parse_go(dump):
    return GP(dump.split()).value()

# ---- the relation ---------------------------------------------------------------------------------
class Cyclic(Exception):
    pass

def fbits(x):
    return struct.unpack(">Q", struct.pack(">d", x))[0]

def same_float(a, b):
    if a != a or b != b:
        return a != a and b != b
    return fbits(a) == fbits(b)

def go_key_id(k):
    """identity of a Python-side key as a Go builtin-map key; raises GoMapKeyError"""
    if k is None: return ("N",)
    if isinstance(k, bool): return ("b", k)
    if isinstance(k, BigInt): return ("L", id(k))
    if isinstance(k, int): return ("i", int(k))
    if isinstance(k, float):
        if k != k: return ("nan", object())
        return ("f", k + 0.0 if k != 0 else 0.0)
    if isinstance(k, str): return ("s", k)
    if isinstance(k, Py2Str): return ("z", k.b)
    if isinstance(k, bytes): return ("y", k)
    if isinstance(k, Global): return ("g", k.m, k.n)
    if isinstance(k, PRef): return ("R", go_key_id(k.pid))
    if isinstance(k, User): return ("U", k.tag)
    raise GoMapKeyError(type(k).__name__)

def strkind(k):
    if isinstance(k, Py2Str): return "z"
    if isinstance(k, str): return "s"
    if isinstance(k, (bytes, bytearray)): return "b"
    if isinstance(k, tuple): return tuple(strkind(x) for x in k)
    return None

def ref_entries(d, pydict):
    """entries of the dict the reference machine built, as the decoder mode documents them;
    returns (entries, multi) - multi: some assignment matched more than one stored key"""
    entries, multi = [], False
    kinds = []          # per entry: the string kinds of all keys that ever fell into this class
    def flat(k):
        sk = strkind(k)
        return set(sk) if isinstance(sk, tuple) else {sk}
    if pydict:
        for k, v in d.trace:
            try:
                hash(k)
            except TypeError:
                raise GoMapKeyError("unhashable")
            hits = [i for i, (k2, _) in enumerate(entries) if PV.py_eq(k, k2)]
            if len(hits) > 1:
                multi = True
            if hits:
                entries[hits[0]] = (entries[hits[0]][0], v)
                kinds[hits[0]] |= flat(k)
                for i in reversed(hits[1:]):
                    kinds[hits[0]] |= kinds[i]
                    del entries[i]; del kinds[i]
                # a Python-2 str equals both the str and the bytes of the same content, which are not
                # equal to each other: a class holding a str AND a bytes key is not a class of any single
                # Python's dict (same corner as C08's non-transitive finding)
                if {"s", "b"} <= kinds[hits[0]]:
                    multi = True
            else:
                entries.append((k, v)); kinds.append(flat(k))
    else:
        ids = []
        for k, v in d.trace:
            kid = go_key_id(k)
            if kid in ids:
                i = ids.index(kid)
                entries[i] = (k, v)          # the Go runtime overwrites the stored key too (+0 / -0)
            else:
                ids.append(kid); entries.append((k, v))
    return entries, multi

def equiv(g, p, pydict, path=None, flags=None):
    """does the Go value g (parsed dump) denote the Python object p?"""
    path = path or []
    flags = flags if flags is not None else {}
    if id(p) in path:
        raise Cyclic()
    if p is None: return g is None
    if isinstance(p, bool): return isinstance(g, bool) and g == p
    if isinstance(p, int):
        return isinstance(g, int) and not isinstance(g, bool) and int(g) == int(p)
    if isinstance(p, float): return isinstance(g, float) and same_float(g, p)
    if isinstance(p, str): return type(g) is str and g == p
    if isinstance(p, Py2Str): return isinstance(g, Py2Str) and g.b == p.b
    if isinstance(p, bytearray): return isinstance(g, bytearray) and g == p
    if isinstance(p, bytes): return type(g) is bytes and g == p
    path = path + [id(p)]
    if isinstance(p, list):
        return type(g) is list and len(g) == len(p) and all(equiv(a, b, pydict, path, flags) for a, b in zip(g, p))
    if isinstance(p, tuple):
        return type(g) is tuple and len(g) == len(p) and all(equiv(a, b, pydict, path, flags) for a, b in zip(g, p))
    if isinstance(p, TraceDict):
        if not isinstance(g, Pairs) or g.kind != ("d{" if pydict else "m{"):
            return False
        ents, multi = ref_entries(p, pydict)
        if multi:
            flags["multi"] = True
        if len(ents) != len(g):
            return False
        used = set()
        for gk, gv in g:
            hit = None
            for j, (pk, pv) in enumerate(ents):
                if j in used: continue
                if pydict:
                    # same key class (documented equality) and same final value
                    try:
                        same_key = key_same_class(to_py_key(gk), pk)
                    except Exception:
                        same_key = False
                else:
                    same_key = equiv(gk, pk, pydict, path, flags)
                if same_key and equiv(gv, pv, pydict, path, flags):
                    hit = j; break
            if hit is None:
                return False
            used.add(hit)
        return True
    if isinstance(p, Global): return isinstance(g, Global) and (g.m, g.n) == (p.m, p.n)
    if isinstance(p, Call):
        return isinstance(g, Call) and equiv(g.g, p.g, pydict, path, flags) and equiv(tuple(g.args), tuple(p.args), pydict, path, flags)
    if isinstance(p, PRef): return isinstance(g, PRef) and equiv(g.pid, p.pid, pydict, path, flags)
    if isinstance(p, User): return isinstance(g, User) and g.tag == p.tag
    return False

def key_same_class(a, b):
    """documented equality; a NaN only matches a NaN (it is never equal to anything, so it is
    always an entry of its own on both sides)"""
    if isinstance(a, float) and isinstance(b, float) and (a != a or b != b):
        return a != a and b != b
    if isinstance(a, tuple) and isinstance(b, tuple):
        return len(a) == len(b) and all(key_same_class(x, y) for x, y in zip(a, b))
    return PV.py_eq(a, b)

def to_py_key(g):
    """a parsed Go key as a Python object usable with the documented equality"""
    if isinstance(g, Pairs): raise TypeError("dict key")
    if isinstance(g, tuple): return tuple(to_py_key(x) for x in g)
    return g

def any_dict_with_unhashable(dicts, pydict):
    """did the load assign, to ANY dict (also one the result does not reach), a key the mode cannot hold?"""
    for d in dicts:
        try:
            ref_entries(d, pydict)
        except GoMapKeyError:
            return True
    return False

def contains_dict_with_unhashable(p, pydict, path=None):
    """does building this object require a dict key the mode cannot hold? (documented error)"""
    path = path or []
    if id(p) in path: return False
    path = path + [id(p)]
    if isinstance(p, TraceDict):
        try:
            ref_entries(p, pydict)
        except GoMapKeyError:
            return True
        return any(contains_dict_with_unhashable(k, pydict, path) or contains_dict_with_unhashable(v, pydict, path) for k, v in p.trace)
    if isinstance(p, (list, tuple)): return any(contains_dict_with_unhashable(x, pydict, path) for x in p)
    if isinstance(p, Call): return any(contains_dict_with_unhashable(x, pydict, path) for x in p.args)
    if isinstance(p, PRef): return contains_dict_with_unhashable(p.pid, pydict, path)
    return False
