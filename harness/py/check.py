#!/usr/bin/env python3
"""bin/check <ID> [--tier quick|thorough]

For one property: (1) rebuild the Coq development and re-check Props/<ID>.v (the theorems
that decide the property for the model), (2) rebuild implrun from /repo's working tree and
modelrun from the model, (3) correspondence: run both on the property's generated domain
and compare projected observations, (4) the property's direct oracle on the implementation
(this is what yields a concrete failing input), (5) write evidence/<ID>.json.
Exit 0 = held on everything explored; exit 1 + "VIOLATION property=<ID> replay=<path>"."""
import json, os, sys, time, traceback
sys.path.insert(0, os.path.dirname(os.path.abspath(__file__)))
import common as C

TRUSTED_BASE = [
    "Coq 8.16.1 kernel (coqc; vm_compute used for finite sweeps and witnesses; no native_compute)",
    "hand-written Gallina model of og-rek (coq/Model/*.v): all of og-rek is modelled, none of it is verified directly",
    "correspondence check: implrun (Go, built from /repo with -tags verif) vs modelrun (OCaml extracted from the model) on generated cases",
    "extraction to OCaml with ExtrOcamlBasic only (Extract Inductive for bool, option, list, prod, unit, sumbool, sumor); N, Z, positive, nat, byte stay extracted inductives; no Extract Constant",
    "OCaml driver ocaml/main.ml (hex/decimal I/O, value-syntax parser), Python generators and differ (harness/py)",
    "models of Go library behaviour: strconv.ParseInt/ParseFloat/UnquoteChar/QuoteRune, utf8.DecodeRuneInString, big.Int.SetString, bufio/io readers, Go map key semantics, gomap contract",
    "oracles: strconv.IsPrint above ASCII and fmt %g are tables dumped from the Go runtime at check time",
    "go1.23.5 linux/amd64 (int64(float) overflow behaviour of amd64)",
]

class Result:
    def __init__(self, pid):
        self.pid = pid
        self.violations = []       # (what, replay_obj, found_input: bool)
        self.known = []            # strings
        self.coverage = {}
        self.samples = []
        self.notes = []

    def violation(self, what, replay, found_input=True):
        self.violations.append((what, replay, found_input))

def finish(res, tier, seed, t0, proof):
    pid = res.pid
    ok_proof, theorems, assumptions_out, forbidden = proof
    cov = dict(res.coverage)
    cov["obligations"] = max(1, len(theorems))
    cov["discharged"] = len(theorems) if ok_proof else 0
    cov["theorems"] = theorems
    cov["checker_cmd"] = "make -C coq (full .vo build) && coqc -Q coq OgRek coq/Props/%s.v" % pid
    cov["trusted_base"] = TRUSTED_BASE
    cov["print_assumptions"] = [l for l in assumptions_out.split("\n") if l.strip()][:40]
    cov["samples"] = res.samples[:8] if res.samples else ["(none)"]
    if "evaluations" not in cov:
        cov["evaluations"] = 0
    if "distinct_nontrivial" not in cov:
        cov["distinct_nontrivial"] = 0
    if res.notes:
        cov["notes"] = res.notes
    rc = 0
    lines = []
    # concrete failing inputs first
    concrete = [v for v in res.violations if v[1] is not None and v[2]]
    others = [v for v in res.violations if v[1] is not None and not v[2]]
    nviol = len(concrete) + len(others)
    for what, replay_obj, found in (concrete + others)[:10]:
        replay_obj = dict(replay_obj, property=pid, what=what, seed=seed, tier=tier)
        path = C.write_replay(pid, replay_obj)
        lines.append("VIOLATION property=%s replay=%s%s" % (pid, path, "" if found else " no-failing-input-found"))
        rc = 1
    if not ok_proof:
        replay = C.write_replay(pid, {"property": pid, "kind": "proof-obligation",
                                      "what": "the theorems of coq/Props/%s.v no longer check" % pid,
                                      "theorem_file": "coq/Props/%s.v" % pid,
                                      "coq_output": assumptions_out[-3000:],
                                      "failing_input_found_by_search": bool(concrete)})
        lines.append("VIOLATION property=%s replay=%s%s" % (pid, replay, "" if concrete else " no-failing-input-found"))
        nviol += 1
        rc = 1
    if forbidden:
        replay = C.write_replay(pid, {"property": pid, "kind": "forbidden-construct", "what": "forbidden construct in the development", "where": forbidden})
        lines.append("VIOLATION property=%s replay=%s no-failing-input-found" % (pid, replay))
        nviol += 1
        rc = 1
    for k in res.known:
        print("KNOWN-FINDING: property=%s %s" % (pid, k))
    # keep the output readable: at most 10 violation lines
    for l in lines[:10]:
        print(l)
    if nviol > 10:
        print("(%d further violations suppressed)" % (nviol - 10))
    C.write_evidence(pid, tier, seed, cov, time.time() - t0, max(len(lines), nviol),
                     ["model/implementation agreement is sampled, not proved",
                      "see coverage.trusted_base"])
    print("%s: %s (%d theorems, %s evaluations, %.1fs)" %
          (pid, "OK" if rc == 0 else "FAILED", len(theorems), cov.get("evaluations"), time.time() - t0))
    return rc

def main():
    if len(sys.argv) < 2:
        print(__doc__); return 2
    pid = sys.argv[1]
    tier = C.tier(sys.argv)
    seed = C.seed()
    t0 = time.time()
    import props
    if pid not in props.CHECKS:
        print("unknown property", pid); return 2
    with C.BuildLock():
        ok_coq, coq_log = C.build_coq()
        ok_model, model_log = C.build_model()      # the model must still run when a proof breaks
        ok_impl, impl_log = C.build_impl()
        forbidden = C.scan_forbidden()
    if not ok_impl:
        print("implrun does not build from /repo:\n" + impl_log[-3000:])
        res = Result(pid)
        res.violation("the harness no longer builds against /repo (API the property is stated over changed?)",
                      {"kind": "build", "log": impl_log[-3000:]}, found_input=False)
        return finish(res, tier, seed, t0, (True, [], "", []))
    ok_props, theorems, assumptions = C.check_props_file(pid)
    if not ok_coq and ok_props:
        # some other file of the development fails: this property's own theorems still check
        pass
    res = Result(pid)
    if not ok_model:
        res.violation("model does not build/extract", {"kind": "build", "log": model_log[-3000:]}, False)
    else:
        try:
            props.CHECKS[pid](res, C.Rng(seed).fork(pid), tier)
        except Exception:
            traceback.print_exc()
            res.violation("check crashed", {"kind": "crash", "trace": traceback.format_exc()[-3000:]}, False)
    return finish(res, tier, seed, t0, (ok_props, theorems, assumptions, forbidden))

if __name__ == "__main__":
    sys.exit(main())
