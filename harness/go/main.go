// implrun — runs the real og-rek (built from /repo's working tree with -tags verif) on the
// same case lines modelrun consumes and prints one canonical observation per line.
package main

import (
	"bufio"
	"bytes"
	"encoding/hex"
	"flag"
	"fmt"
	"hash/maphash"
	"io"
	"os"
	"runtime"
	"strings"
	"time"

	ogorek "github.com/kisielk/og-rek"
)

var (
	flagAlloc   = flag.Bool("alloc", false, "append alloc=<bytes> (TotalAlloc delta) to dec observations")
	flagTimeout = flag.Duration("timeout", 20*time.Second, "per-case time limit")
)

var errHook = fmt.Errorf("scripted PersistentLoad failure")

type hookLog struct {
	mode  int
	calls []string
}

func (h *hookLog) load(ref ogorek.Ref) (any, error) {
	idx := len(h.calls)
	h.calls = append(h.calls, dumpVal(ref))
	switch h.mode {
	case 1:
		return nil, nil
	case 2:
		return UserObj{Tag: idx}, nil
	case 3:
		switch idx % 3 {
		case 0:
			return UserObj{Tag: idx}, nil
		case 1:
			return nil, nil
		default:
			return nil, errHook
		}
	case 4:
		if _, ok := ref.Pid.(string); ok {
			return UserObj{Tag: idx}, nil
		}
		return nil, nil
	case 6:
		// a hook that reports failure the way hand-written loaders do: a (half-built or typed-nil)
		// object together with the error, on every second call
		if idx%2 == 1 {
			return UserObj{Tag: idx}, errHook
		}
		return UserObj{Tag: idx}, nil
	case 5:
		// the registry hook of the model (Model/Norm.v inv_load): the object is a function of the id only
		switch p := ref.Pid.(type) {
		case string:
			tag := 0
			for i := 0; i < len(p); i++ {
				tag = (tag*31 + int(p[i])) % 1000003
			}
			return UserObj{Tag: tag}, nil
		case ogorek.Tuple:
			return UserObj{Tag: 2000000 + len(p)}, nil
		}
		return nil, nil
	}
	panic("bad load mode")
}

func decCfg(pd, su, lm string) (*ogorek.DecoderConfig, *hookLog) {
	cfg := &ogorek.DecoderConfig{PyDict: pd == "1", StrictUnicode: su == "1"}
	var h *hookLog
	if lm != "0" {
		h = &hookLog{mode: int(lm[0] - '0')}
		cfg.PersistentLoad = h.load
	}
	return cfg, h
}

// decodeStream: successive Decode calls on one Decoder until io.EOF (or a panic).
// Values are dumped only after the run so that allocation metering sees Decode alone.
type decRes struct {
	v   any
	err error
	tag string // "panic" / "NOPROGRESS" / ""
}

func decodeStream(r io.Reader, cfg *ogorek.DecoderConfig, limit int) (out []decRes) {
	dec := ogorek.NewDecoderWithConfig(r, cfg)
	for i := 0; i < limit; i++ {
		var v any
		var err error
		panicked := func() (p bool) {
			defer func() {
				if r := recover(); r != nil {
					p = true
				}
			}()
			v, err = dec.Decode()
			return false
		}()
		if panicked {
			out = append(out, decRes{tag: "panic"})
			return
		}
		out = append(out, decRes{v: v, err: err})
		if err == io.EOF {
			return
		}
	}
	out = append(out, decRes{tag: "NOPROGRESS"})
	return
}

func showDecRes(rs []decRes) string {
	parts := make([]string, 0, len(rs))
	for _, r := range rs {
		switch {
		case r.tag != "":
			parts = append(parts, r.tag)
		case r.err != nil:
			parts = append(parts, "err "+ogorek.VerifErrClass(r.err))
		default:
			parts = append(parts, "ok "+dumpVal(r.v))
		}
	}
	return strings.Join(parts, " | ")
}

func runDec(args []string) string {
	pd, su, lm := args[0], args[1], args[2]
	data := []byte{}
	if len(args) > 3 {
		var err error
		data, err = hex.DecodeString(args[3])
		if err != nil {
			return "DRIVER-ERROR bad hex"
		}
	}
	cfg, h := decCfg(pd, su, lm)
	var m0, m1 runtime.MemStats
	if *flagAlloc {
		runtime.ReadMemStats(&m0)
	}
	rs := decodeStream(bytes.NewReader(data), cfg, len(data)+3)
	if *flagAlloc {
		runtime.ReadMemStats(&m1)
	}
	out := showDecRes(rs)
	if h != nil {
		out += " #log " + strings.Join(h.calls, " ; ")
	}
	if *flagAlloc {
		out += fmt.Sprintf(" #alloc=%d", m1.TotalAlloc-m0.TotalAlloc)
	}
	return out
}

// runRechain: the fuzz invariant on the decoded OBJECT ITSELF (not on a copy rebuilt from its dump): decode the
// first pickle, encode what came back at protocols 0..5 with the decoder's StrictUnicode; per protocol the outcome
// class and the bytes.  "NA" when the first Decode fails.
func runRechain(args []string) string {
	pd, su := args[0], args[1]
	data, err := hex.DecodeString(args[2])
	if err != nil {
		return "DRIVER-ERROR bad hex"
	}
	cfg, _ := decCfg(pd, su, "0")
	var v any
	panicked := func() (p bool) {
		defer func() {
			if r := recover(); r != nil {
				p = true
			}
		}()
		v, err = ogorek.NewDecoderWithConfig(bytes.NewReader(data), cfg).Decode()
		return false
	}()
	if panicked || err != nil {
		return "NA"
	}
	var parts []string
	for proto := 0; proto <= 5; proto++ {
		var buf bytes.Buffer
		var eerr error
		pmsg := func() (msg string) {
			defer func() {
				if r := recover(); r != nil {
					msg = fmt.Sprint(r)
				}
			}()
			eerr = ogorek.NewEncoderWithConfig(&buf, &ogorek.EncoderConfig{Protocol: proto, StrictUnicode: su == "1"}).Encode(v)
			return ""
		}()
		switch {
		case pmsg != "":
			parts = append(parts, "panic")
		case eerr != nil:
			parts = append(parts, "err "+ogorek.VerifEncErrClass(eerr))
		default:
			parts = append(parts, "ok "+hex.EncodeToString(buf.Bytes()))
		}
	}
	return strings.Join(parts, " | ")
}

func b01(b bool) string {
	if b {
		return "1"
	}
	return "0"
}

var seeds = []maphash.Seed{maphash.MakeSeed(), maphash.MakeSeed(), maphash.MakeSeed()}

// hashOf: (hash under seed, panicked with "unhashable type:")
func hashOf(seed maphash.Seed, x any) (h uint64, unhashable bool, other string) {
	defer func() {
		if r := recover(); r != nil {
			if s, ok := r.(string); ok && strings.HasPrefix(s, "unhashable type:") {
				unhashable = true
			} else {
				other = fmt.Sprint(r)
			}
		}
	}()
	return ogorek.VerifHash(seed, x), false, ""
}

func runEq(args []string) string {
	p := &parser{toks: args}
	a := p.value()
	b := p.value()
	eq := ogorek.VerifEqual(a, b)
	same := true
	ha, hb := true, true
	for _, s := range seeds {
		x, ua, oa := hashOf(s, a)
		y, ub, ob := hashOf(s, b)
		if oa != "" || ob != "" {
			return "PANIC " + oa + ob
		}
		if ua {
			ha = false
		}
		if ub {
			hb = false
		}
		if ua || ub || x != y {
			same = false
		}
	}
	return fmt.Sprintf("eq=%s ha=%s hb=%s samehash=%s", b01(eq), b01(ha), b01(hb), b01(same))
}

func showStrErr(s string, err error) string {
	if err != nil {
		return "err " + ogorek.VerifErrClass(err)
	}
	return "ok " + hex.EncodeToString([]byte(s))
}

func arg0hex(args []string) string {
	if len(args) == 0 {
		return ""
	}
	return unhex(args[0])
}

func handle(line string) (out string) {
	defer func() {
		if r := recover(); r != nil {
			out = fmt.Sprintf("PANIC %v", r)
		}
	}()
	f := strings.Fields(line)
	if len(f) == 0 {
		return ""
	}
	switch f[0] {
	case "dec":
		return runDec(f[1:])
	case "rechain":
		return runRechain(f[1:])
	case "eq":
		return runEq(f[1:])
	case "declong":
		z, _ := ogorek.VerifDecodeLong(arg0hex(f[1:]))
		return z.String()
	case "unesc":
		return showStrErr(ogorek.VerifPydecodeStringEscape(arg0hex(f[1:])))
	case "rueenc":
		s, err := ogorek.VerifPyencodeRawUnicodeEscape(arg0hex(f[1:]))
		if err != nil {
			return "err invalidutf8"
		}
		return "ok " + hex.EncodeToString([]byte(s))
	case "ruedec":
		return showStrErr(ogorek.VerifPydecodeRawUnicodeEscape(arg0hex(f[1:])))
	case "pyquote":
		return "ok " + hex.EncodeToString([]byte(ogorek.VerifPyquote(arg0hex(f[1:]))))
	}
	if r, ok := handleMore(f); ok {
		return r
	}
	return "DRIVER-ERROR unknown command " + f[0]
}

// VERIF_FLUSH=1: flush after every case (the orchestrator re-runs the cases of a crashed batch this
// way to find the one that kills the process)
var flushEach = os.Getenv("VERIF_FLUSH") == "1"

func main() {
	flag.Parse()
	in := bufio.NewReaderSize(os.Stdin, 1<<20)
	out := bufio.NewWriterSize(os.Stdout, 1<<20)
	defer out.Flush()
	for {
		line, err := in.ReadString('\n')
		if len(line) > 0 {
			line = strings.TrimRight(line, "\n")
			done := make(chan string, 1)
			go func() { done <- handle(line) }()
			select {
			case r := <-done:
				out.WriteString(r)
				out.WriteByte('\n')
				if flushEach || strings.HasPrefix(line, "conc") {
					out.Flush() // a runtime crash in a later case must not swallow this result
				}
			case <-time.After(*flagTimeout):
				out.WriteString("TIMEOUT\n")
				out.Flush()
				os.Exit(3)
			}
		}
		if err != nil {
			return
		}
	}
}
