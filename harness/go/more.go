package main

import (
	"bufio"
	"fmt"
	"io"
	"math"
	"sort"
	"strconv"
	"strings"

	ogorek "github.com/kisielk/og-rek"
)

// dictCall runs one Dict API call; "unhashable" = panicked with the documented message.
func dictCall(f func()) (status string) {
	defer func() {
		if r := recover(); r != nil {
			if s, ok := r.(string); ok && strings.HasPrefix(s, "unhashable type:") {
				status = "unhashable"
			} else {
				status = "PANIC(" + fmt.Sprint(r) + ")"
			}
		}
	}()
	f()
	return "ok"
}

func dictEntries(d ogorek.Dict) string {
	var items []string
	n := 0
	d.Iter()(func(k, v any) bool {
		n++
		items = append(items, dumpVal(k)+" "+dumpVal(v))
		return true
	})
	sort.Strings(items)
	return fmt.Sprintf("iter(%d)={ %s }", n, strings.Join(items, " ; "))
}

// runDict: a history of Dict operations on one fresh Dict.
//   S k v   Set        D k   Del        G k   Get_        L  Len        I  Iter
func runDict(args []string) string {
	p := &parser{toks: args}
	d := ogorek.NewDict()
	var out []string
	for p.pos < len(p.toks) {
		op := p.next()
		switch op {
		case "S":
			k := p.value()
			v := p.value()
			out = append(out, "S:"+dictCall(func() { d.Set(k, v) }))
		case "D":
			k := p.value()
			out = append(out, "D:"+dictCall(func() { d.Del(k) }))
		case "G":
			k := p.value()
			var v any
			var ok bool
			st := dictCall(func() { v, ok = d.Get_(k) })
			if st != "ok" {
				out = append(out, "G:"+st)
			} else if ok {
				out = append(out, "G:"+dumpVal(v))
			} else {
				out = append(out, "G:none")
			}
		case "L":
			out = append(out, "L:"+strconv.Itoa(d.Len()))
		case "I":
			out = append(out, dictEntries(d))
		default:
			return "DRIVER-ERROR bad dict op " + op
		}
	}
	return strings.Join(out, " | ")
}

// runLookup: in n fresh Dicts (fresh hash seeds), Set(a, 1) then Get_(b): how often found.
func runLookup(args []string) string {
	n, _ := strconv.Atoi(args[0])
	p := &parser{toks: args[1:]}
	a := p.value()
	b := p.value()
	found := 0
	for i := 0; i < n; i++ {
		d := ogorek.NewDict()
		st := dictCall(func() { d.Set(a, int64(1)) })
		if st != "ok" {
			return "set:" + st
		}
		ok := false
		st = dictCall(func() { _, ok = d.Get_(b) })
		if st != "ok" {
			return "get:" + st
		}
		if ok {
			found++
		}
	}
	return fmt.Sprintf("found=%d/%d", found, n)
}

// runConv: decode one pickle (PyDict off), then AsInt64 / AsString / AsBytes on the result.
func runConv(args []string) string {
	data := ""
	if len(args) > 1 {
		data = unhex(args[1])
	}
	dec := ogorek.NewDecoderWithConfig(strings.NewReader(data), &ogorek.DecoderConfig{StrictUnicode: args[0] == "1"})
	v, err := dec.Decode()
	if err != nil {
		return "decode err " + ogorek.VerifErrClass(err)
	}
	si, ss, sb := "err", "err", "err"
	if i, err := ogorek.AsInt64(v); err == nil {
		si = "ok:" + strconv.FormatInt(i, 10)
	}
	if s, err := ogorek.AsString(v); err == nil {
		ss = "ok:" + hx(s)
	}
	if b, err := ogorek.AsBytes(v); err == nil {
		sb = "ok:" + hx(string(b))
	}
	return fmt.Sprintf("v=%s int=%s str=%s bytes=%s", dumpVal(v), si, ss, sb)
}

// logWriter records every Write call; the failAt-th call (0-based) fails with errInjected.
type logWriter struct {
	writes [][]byte
	failAt int
	after  int // Write calls made after the failed one
	failed bool
}

var errInjected = fmt.Errorf("injected write failure")

func (w *logWriter) Write(b []byte) (int, error) {
	if w.failed {
		w.after++
		return 0, errInjected
	}
	w.writes = append(w.writes, append([]byte{}, b...))
	if w.failAt >= 0 && len(w.writes)-1 == w.failAt {
		w.failed = true
		return 0, errInjected
	}
	return len(b), nil
}

// runEnc: enc <proto> <strict> <failat|-> <value tokens>
func runEnc(args []string) (out string) {
	proto, _ := strconv.Atoi(args[0])
	failAt := -1
	if args[2] != "-" {
		failAt, _ = strconv.Atoi(args[2])
	}
	p := &encParser{parser: parser{toks: args[3:]}, refs: map[uintptr]*ogorek.Ref{}}
	rv := p.rvalue()
	var v any
	if rv.IsValid() {
		v = rv.Interface()
	}
	before := fmt.Sprintf("%#v", v)
	w := &logWriter{failAt: failAt}
	var dst io.Writer = w
	var bw *bufio.Writer
	if strings.HasPrefix(args[2], "b") {
		// the destination buffers: same bytes must come out however it chunks them
		n, _ := strconv.Atoi(args[2][1:])
		bw = bufio.NewWriterSize(w, n)
		dst = bw
		w.failAt = -1
	}
	enc := ogorek.NewEncoderWithConfig(dst, &ogorek.EncoderConfig{Protocol: proto, StrictUnicode: args[1] == "1", PersistentRef: p.getref})
	var err error
	panicked := func() (msg string) {
		defer func() {
			if r := recover(); r != nil {
				msg = fmt.Sprint(r)
			}
		}()
		err = enc.Encode(v)
		return ""
	}()
	if bw != nil {
		bw.Flush()
	}
	var all []byte
	for _, b := range w.writes {
		all = append(all, b...)
	}
	mutated := "0"
	if fmt.Sprintf("%#v", v) != before {
		mutated = "1"
	}
	tail := fmt.Sprintf(" #writes=%d #after=%d #mutated=%s", len(w.writes), w.after, mutated)
	switch {
	case panicked != "":
		return "panic " + strings.ReplaceAll(panicked, " ", "_") + tail
	case w.failed:
		same := "0"
		if err == errInjected {
			same = "1"
		}
		return "writeerr returned=" + same + tail
	case err != nil:
		return "err " + ogorek.VerifEncErrClass(err) + " " + hx(string(all)) + tail
	}
	return "ok " + hx(string(all)) + tail
}

// isPrintTable: ranges [lo,hi] of runes >= 128 that strconv.IsPrint accepts.
func isPrintTable() string {
	var sb strings.Builder
	start := -1
	for r := 128; r <= 0x110000; r++ {
		ok := r <= 0x10FFFF && strconv.IsPrint(rune(r))
		if ok && start < 0 {
			start = r
		}
		if !ok && start >= 0 {
			fmt.Fprintf(&sb, "%d-%d,", start, r-1)
			start = -1
		}
	}
	return sb.String()
}

// runDecStable: decode a stream; each returned value is dumped right after its Decode call and
// again after the last call: "stable" iff nothing returned earlier was altered later.
func runDecStable(args []string) string {
	data := ""
	if len(args) > 2 {
		data = unhex(args[2])
	}
	dec := ogorek.NewDecoderWithConfig(strings.NewReader(data), &ogorek.DecoderConfig{PyDict: args[0] == "1", StrictUnicode: args[1] == "1"})
	var vals []any
	var early []string
	for i := 0; i < len(data)+3; i++ {
		v, err := dec.Decode()
		if err == io.EOF {
			break
		}
		if err != nil {
			continue
		}
		vals = append(vals, v)
		early = append(early, dumpVal(v))
	}
	for i, v := range vals {
		if late := dumpVal(v); late != early[i] {
			return fmt.Sprintf("value #%d was %s, now %s", i+1, early[i], late)
		}
	}
	return "stable"
}

// handleMore: commands beyond decoding.
func handleMore(f []string) (string, bool) {
	switch f[0] {
	case "dict":
		return runDict(f[1:]), true
	case "lookup":
		return runLookup(f[1:]), true
	case "conv":
		return runConv(f[1:]), true
	case "decstable":
		return runDecStable(f[1:]), true
	case "enc":
		return runEnc(f[1:]), true
	case "fmtg":
		return "ok " + hx(fmt.Sprintf("%g", math.Float64frombits(hexu64(f[1])))), true
	case "isprint-table":
		return isPrintTable(), true
	}
	return "", false
}
