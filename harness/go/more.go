package main

// handleMore: commands added later (encoder, dict histories, ...).
func handleMore(f []string) (string, bool) {
	return "", false
}
