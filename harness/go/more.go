package main

import (
	"fmt"
	"sort"
	"strconv"
	"strings"

	ogorek "github.com/kisielk/og-rek"
)

// dictCall runs one Dict API call; "unhashable" = panicked with the documented message.
func dictCall(f func()) (status string) {
	defer func() {
		if r := recover(); r != nil {
			if s, ok := r.(string); ok && strings.HasPrefix(s, "unhashable type:") {
				status = "unhashable"
			} else {
				status = "PANIC(" + fmt.Sprint(r) + ")"
			}
		}
	}()
	f()
	return "ok"
}

func dictEntries(d ogorek.Dict) string {
	var items []string
	n := 0
	d.Iter()(func(k, v any) bool {
		n++
		items = append(items, dumpVal(k)+" "+dumpVal(v))
		return true
	})
	sort.Strings(items)
	return fmt.Sprintf("iter(%d)={ %s }", n, strings.Join(items, " ; "))
}

// runDict: a history of Dict operations on one fresh Dict.
//   S k v   Set        D k   Del        G k   Get_        L  Len        I  Iter
func runDict(args []string) string {
	p := &parser{toks: args}
	d := ogorek.NewDict()
	var out []string
	for p.pos < len(p.toks) {
		op := p.next()
		switch op {
		case "S":
			k := p.value()
			v := p.value()
			out = append(out, "S:"+dictCall(func() { d.Set(k, v) }))
		case "D":
			k := p.value()
			out = append(out, "D:"+dictCall(func() { d.Del(k) }))
		case "G":
			k := p.value()
			var v any
			var ok bool
			st := dictCall(func() { v, ok = d.Get_(k) })
			if st != "ok" {
				out = append(out, "G:"+st)
			} else if ok {
				out = append(out, "G:"+dumpVal(v))
			} else {
				out = append(out, "G:none")
			}
		case "L":
			out = append(out, "L:"+strconv.Itoa(d.Len()))
		case "I":
			out = append(out, dictEntries(d))
		default:
			return "DRIVER-ERROR bad dict op " + op
		}
	}
	return strings.Join(out, " | ")
}

// runLookup: in n fresh Dicts (fresh hash seeds), Set(a, 1) then Get_(b): how often found.
func runLookup(args []string) string {
	n, _ := strconv.Atoi(args[0])
	p := &parser{toks: args[1:]}
	a := p.value()
	b := p.value()
	found := 0
	for i := 0; i < n; i++ {
		d := ogorek.NewDict()
		st := dictCall(func() { d.Set(a, int64(1)) })
		if st != "ok" {
			return "set:" + st
		}
		ok := false
		st = dictCall(func() { _, ok = d.Get_(b) })
		if st != "ok" {
			return "get:" + st
		}
		if ok {
			found++
		}
	}
	return fmt.Sprintf("found=%d/%d", found, n)
}

// handleMore: commands beyond decoding.
func handleMore(f []string) (string, bool) {
	switch f[0] {
	case "dict":
		return runDict(f[1:]), true
	case "lookup":
		return runLookup(f[1:]), true
	}
	return "", false
}
