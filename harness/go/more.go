package main

import (
	"bufio"
	"bytes"
	"fmt"
	"io"
	"os"
	"math"
	"sort"
	"runtime"
	"strconv"
	"strings"
	"sync"

	ogorek "github.com/kisielk/og-rek"
)

// dictCall runs one Dict API call; "unhashable" = panicked with the documented message.
func dictCall(f func()) (status string) {
	defer func() {
		if r := recover(); r != nil {
			if s, ok := r.(string); ok && strings.HasPrefix(s, "unhashable type:") {
				status = "unhashable"
			} else {
				status = "PANIC(" + fmt.Sprint(r) + ")"
			}
		}
	}()
	f()
	return "ok"
}

func dictEntries(d ogorek.Dict) string {
	var items []string
	n := 0
	d.Iter()(func(k, v any) bool {
		n++
		items = append(items, dumpVal(k)+" "+dumpVal(v))
		return true
	})
	sort.Strings(items)
	return fmt.Sprintf("iter(%d)={ %s }", n, strings.Join(items, " ; "))
}

// runDict: a history of Dict operations on one fresh Dict.
//   S k v   Set        D k   Del        G k   Get_        L  Len        I  Iter
func runDict(args []string) string {
	p := &parser{toks: args}
	d := ogorek.NewDict()
	var out []string
	// the other two constructors must be indistinguishable from NewDict + Set: the leading run of
	// Set operations is fed, depending on its length, to NewDictWithData (all at once) or to a Dict
	// made by NewDictWithSizeHint
	{
		q := &parser{toks: args}
		var kv []any
		for q.pos < len(q.toks) && q.toks[q.pos] == "S" {
			q.next()
			k := q.value()
			v := q.value()
			kv = append(kv, k, v)
		}
		n := len(kv) / 2
		switch {
		case n >= 2 && n%3 == 0:
			var nd ogorek.Dict
			if dictCall(func() { nd = ogorek.NewDictWithData(kv...) }) == "ok" {
				d = nd
				p.pos = q.pos
				for i := 0; i < n; i++ {
					out = append(out, "S:ok")
				}
			}
		case n >= 2 && n%3 == 1:
			d = ogorek.NewDictWithSizeHint(n)
		}
	}
	for p.pos < len(p.toks) {
		op := p.next()
		switch op {
		case "S":
			k := p.value()
			v := p.value()
			out = append(out, "S:"+dictCall(func() { d.Set(k, v) }))
		case "D":
			k := p.value()
			out = append(out, "D:"+dictCall(func() { d.Del(k) }))
		case "G":
			k := p.value()
			var v any
			var ok bool
			st := dictCall(func() { v, ok = d.Get_(k) })
			if st != "ok" {
				out = append(out, "G:"+st)
			} else if ok {
				out = append(out, "G:"+dumpVal(v))
			} else {
				out = append(out, "G:none")
			}
		case "Z":
			// from here on the zero-value Dict (a Dict field nobody initialised)
			d = ogorek.Dict{}
			out = append(out, "Z:ok")
		case "L":
			out = append(out, "L:"+strconv.Itoa(d.Len()))
		case "I":
			out = append(out, dictEntries(d))
		default:
			return "DRIVER-ERROR bad dict op " + op
		}
	}
	return strings.Join(out, " | ")
}

// runLookup: in n fresh Dicts (fresh hash seeds), Set(a, 1) then Get_(b): how often found.
func runLookup(args []string) string {
	n, _ := strconv.Atoi(args[0])
	p := &parser{toks: args[1:]}
	a := p.value()
	b := p.value()
	found := 0
	for i := 0; i < n; i++ {
		d := ogorek.NewDict()
		st := dictCall(func() { d.Set(a, int64(1)) })
		if st != "ok" {
			return "set:" + st
		}
		ok := false
		st = dictCall(func() { _, ok = d.Get_(b) })
		if st != "ok" {
			return "get:" + st
		}
		if ok {
			found++
		}
	}
	return fmt.Sprintf("found=%d/%d", found, n)
}

// runConv: decode one pickle (PyDict off), then AsInt64 / AsString / AsBytes on the result.
func runConv(args []string) string {
	data := ""
	if len(args) > 1 {
		data = unhex(args[1])
	}
	dec := ogorek.NewDecoderWithConfig(strings.NewReader(data), &ogorek.DecoderConfig{StrictUnicode: args[0] == "1"})
	v, err := dec.Decode()
	if err != nil {
		return "decode err " + ogorek.VerifErrClass(err)
	}
	si, ss, sb := "err", "err", "err"
	if i, err := ogorek.AsInt64(v); err == nil {
		si = "ok:" + strconv.FormatInt(i, 10)
	}
	if s, err := ogorek.AsString(v); err == nil {
		ss = "ok:" + hx(s)
	}
	if b, err := ogorek.AsBytes(v); err == nil {
		sb = "ok:" + hx(string(b))
	}
	return fmt.Sprintf("v=%s int=%s str=%s bytes=%s", dumpVal(v), si, ss, sb)
}

// logWriter records every Write call; the failAt-th call (0-based) fails with errInjected.
type logWriter struct {
	writes [][]byte
	failAt int
	after  int // Write calls made after the failed one
	failed bool
}

var errInjected = fmt.Errorf("injected write failure")

func (w *logWriter) Write(b []byte) (int, error) {
	if w.failed {
		w.after++
		return 0, errInjected
	}
	w.writes = append(w.writes, append([]byte{}, b...))
	if w.failAt >= 0 && len(w.writes)-1 == w.failAt {
		w.failed = true
		return 0, errInjected
	}
	return len(b), nil
}

// runEnc: enc <proto> <strict> <failat|-> <value tokens>
func runEnc(args []string) (out string) {
	proto, _ := strconv.Atoi(args[0])
	failAt := -1
	if args[2] != "-" && args[2] != "r" {
		failAt, _ = strconv.Atoi(args[2])
	}
	p := &encParser{parser: parser{toks: args[3:]}, refs: map[uintptr]*ogorek.Ref{}}
	rv := p.rvalue()
	var v any
	if rv.IsValid() {
		v = rv.Interface()
	}
	before := deepString(v)
	w := &logWriter{failAt: failAt}
	var dst io.Writer = w
	var bw *bufio.Writer
	if strings.HasPrefix(args[2], "b") {
		// the destination buffers: same bytes must come out however it chunks them
		n, _ := strconv.Atoi(args[2][1:])
		bw = bufio.NewWriterSize(w, n)
		dst = bw
		w.failAt = -1
	}
	ncalls, nhits := 0, 0
	getref := func(obj any) *ogorek.Ref {
		ncalls++
		r := p.getref(obj)
		if r != nil {
			nhits++
		}
		return r
	}
	enc := ogorek.NewEncoderWithConfig(dst, &ogorek.EncoderConfig{Protocol: proto, StrictUnicode: args[1] == "1", PersistentRef: getref})
	if args[2] == "r" {
		// a used Encoder: it has already written other pickles to the same Writer; only what the
		// call under test writes is observed
		_ = enc.Encode(int64(7))
		_ = enc.Encode([]any{"x", 1.5})
		// ... and one call that failed part-way (a documented limitation at protocols 0..3; a type error elsewhere)
		_ = enc.Encode([]any{int64(1), ogorek.Class{Module: "a\nb", Name: "c"}})
		_ = enc.Encode([]any{"y", make(chan int)})
		w.writes = nil
		w.failAt = -1
		ncalls, nhits = 0, 0
	}
	var err error
	panicked := func() (msg string) {
		defer func() {
			if r := recover(); r != nil {
				msg = fmt.Sprint(r)
			}
		}()
		err = enc.Encode(v)
		return ""
	}()
	if bw != nil {
		bw.Flush()
	}
	var all []byte
	for _, b := range w.writes {
		all = append(all, b...)
	}
	mutated := "0"
	if after := deepString(v); after != before {
		mutated = "1"
		if os.Getenv("VERIF_DEBUG_MUT") != "" {
			i := 0
			for i < len(after) && i < len(before) && after[i] == before[i] {
				i++
			}
			lo := i - 200
			if lo < 0 {
				lo = 0
			}
			fmt.Fprintf(os.Stderr, "BEFORE ...%s\nAFTER  ...%s\n", before[lo:imin(len(before), i+200)], after[lo:imin(len(after), i+200)])
		}
	}
	tail := fmt.Sprintf(" #writes=%d #after=%d #mutated=%s #getref=%d/%d", len(w.writes), w.after, mutated, nhits, ncalls)
	switch {
	case panicked != "":
		return "panic " + strings.ReplaceAll(panicked, " ", "_") + tail
	case w.failed:
		same := "0"
		if err == errInjected {
			same = "1"
		}
		return "writeerr returned=" + same + tail
	case err != nil:
		return "err " + ogorek.VerifEncErrClass(err) + " " + hx(string(all)) + tail
	}
	return "ok " + hx(string(all)) + tail
}

// isPrintTable: ranges [lo,hi] of runes >= 128 that strconv.IsPrint accepts.
func isPrintTable() string {
	var sb strings.Builder
	start := -1
	for r := 128; r <= 0x110000; r++ {
		ok := r <= 0x10FFFF && strconv.IsPrint(rune(r))
		if ok && start < 0 {
			start = r
		}
		if !ok && start >= 0 {
			fmt.Fprintf(&sb, "%d-%d,", start, r-1)
			start = -1
		}
	}
	return sb.String()
}

// runDecStable: decode a stream; each returned value is dumped right after its Decode call and
// again after the last call: "stable" iff nothing returned earlier was altered later.
func runDecStable(args []string) string {
	data := ""
	if len(args) > 2 {
		data = unhex(args[2])
	}
	dec := ogorek.NewDecoderWithConfig(strings.NewReader(data), &ogorek.DecoderConfig{PyDict: args[0] == "1", StrictUnicode: args[1] == "1"})
	var vals []any
	var early []string
	for i := 0; i < len(data)+3; i++ {
		v, err := dec.Decode()
		if err == io.EOF {
			break
		}
		if err != nil {
			continue
		}
		vals = append(vals, v)
		early = append(early, dumpVal(v))
	}
	for i, v := range vals {
		if late := dumpVal(v); late != early[i] {
			return fmt.Sprintf("value #%d was %s, now %s", i+1, early[i], late)
		}
	}
	return "stable"
}

// chunkReader delivers data according to a schedule of chunk sizes; a 0 entry is a Read that
// returns (0, nil); with eofWithData the last chunk is returned together with io.EOF.
type chunkReader struct {
	data        []byte
	sizes       []int
	i           int
	eofWithData bool
}

func (c *chunkReader) Read(p []byte) (int, error) {
	if len(c.data) == 0 {
		return 0, io.EOF
	}
	n := len(c.data)
	if c.i < len(c.sizes) {
		n = c.sizes[c.i]
		c.i++
	}
	if n == 0 {
		return 0, nil
	}
	if n > len(c.data) {
		n = len(c.data)
	}
	if n > len(p) {
		n = len(p)
	}
	copy(p, c.data[:n])
	c.data = c.data[n:]
	if len(c.data) == 0 && c.eofWithData {
		return n, io.EOF
	}
	return n, nil
}

// runDecChunk: decchunk <pd> <su> <lm> <schedule> <hex>; schedule = comma separated chunk sizes,
// optionally followed by "E" (deliver the final chunk together with io.EOF); sizes repeat the
// last entry when exhausted if the schedule ends with "*".
func runDecChunk(args []string) string {
	data := []byte{}
	if len(args) > 4 {
		data = []byte(unhex(args[4]))
	}
	spec := args[3]
	cr := &chunkReader{data: data}
	if strings.HasSuffix(spec, "E") {
		cr.eofWithData = true
		spec = strings.TrimSuffix(spec, "E")
	}
	repeat := strings.HasSuffix(spec, "*")
	spec = strings.TrimSuffix(spec, "*")
	for _, x := range strings.Split(spec, ",") {
		if x == "" {
			continue
		}
		n, _ := strconv.Atoi(x)
		cr.sizes = append(cr.sizes, n)
	}
	if repeat && len(cr.sizes) > 0 {
		last := cr.sizes[len(cr.sizes)-1]
		if last > 0 {
			for len(cr.sizes)*1 < len(data)+8 {
				cr.sizes = append(cr.sizes, last)
			}
		}
	}
	cfg, h := decCfg(args[0], args[1], args[2])
	rs := decodeStream(cr, cfg, len(data)+3)
	out := showDecRes(rs)
	if h != nil {
		out += " #log " + strings.Join(h.calls, " ; ")
	}
	return out
}

// runConc: N goroutines, each with its own Encoder / Decoder (modes enc, dec), or all reading one
// shared decoded value (mode read); per-goroutine results must equal the sequential ones.
//   conc enc  <N> <procs> <strict> <value tokens>
//   conc dec  <N> <procs> <pd> <su> <hex>
//   conc read <N> <procs> <pd> <su> <hex>
// concPhase: 0 while the sequential reference results are computed, 1 during the concurrent phase
var concPhase int

func runConc(args []string) string {
	mode := args[0]
	n, _ := strconv.Atoi(args[1])
	procs, _ := strconv.Atoi(args[2])
	old := runtime.GOMAXPROCS(procs)
	defer runtime.GOMAXPROCS(old)
	const rounds = 8
	work := make([]func() string, n)
	switch mode {
	case "enc":
		for i := 0; i < n; i++ {
			proto := i % 6
			toks := args[4:]
			strict := args[3] == "1"
			work[i] = func() string {
				// every goroutine builds its own value and its own Encoder
				p := &encParser{parser: parser{toks: toks}, refs: map[uintptr]*ogorek.Ref{}}
				rv := p.rvalue()
				var v any
				if rv.IsValid() {
					v = rv.Interface()
				}
				var b bytes.Buffer
				err := ogorek.NewEncoderWithConfig(&b, &ogorek.EncoderConfig{Protocol: proto, StrictUnicode: strict, PersistentRef: p.getref}).Encode(v)
				if err != nil {
					return "err " + ogorek.VerifEncErrClass(err)
				}
				// order of dict entries is random: compare what the bytes decode to
				d, derr := ogorek.NewDecoderWithConfig(&b, &ogorek.DecoderConfig{PyDict: true, StrictUnicode: true}).Decode()
				if derr != nil {
					return "decerr " + ogorek.VerifErrClass(derr)
				}
				return fmt.Sprintf("%d:%s", b.Len(), dumpVal(d))
			}
		}
	case "dec":
		data := unhex(args[5])
		// ONE configuration object shared by all goroutines (a config is input to the constructor, callers
		// share it freely); the sequential reference run uses its own copy, so the shared one is first
		// touched in the concurrent phase
		cfgs := [2]*ogorek.DecoderConfig{
			{PyDict: args[3] == "1", StrictUnicode: args[4] == "1"},
			{PyDict: args[3] == "1", StrictUnicode: args[4] == "1"}}
		for i := 0; i < n; i++ {
			work[i] = func() string {
				return showDecRes(decodeStream(strings.NewReader(data), cfgs[concPhase], len(data)+3))
			}
		}
	case "read":
		data := unhex(args[5])
		cfg := &ogorek.DecoderConfig{PyDict: args[3] == "1", StrictUnicode: args[4] == "1"}
		shared, err := ogorek.NewDecoderWithConfig(strings.NewReader(data), cfg).Decode()
		if err != nil {
			return "skip"
		}
		// a self-referential value (a dict reached through the memo inside itself) cannot be encoded:
		// Encode recurses without end (as encoding/json does); such values are only read
		cyclic := strings.Contains(" "+dumpVal(shared), " ^")
		for i := 0; i < n; i++ {
			proto := i % 6
			work[i] = func() string {
				out := dumpVal(shared) // Len / Iter on every Dict and map inside
				if d, ok := shared.(ogorek.Dict); ok {
					var gets []string
					d.Iter()(func(k, v any) bool {
						got, _ := d.Get_(k)
						gets = append(gets, dumpVal(k)+"="+dumpVal(got))
						return true
					})
					sort.Strings(gets)
					out += "|" + strings.Join(gets, "|")
				}
				var b bytes.Buffer
				if cyclic {
					return out + "#cyclic"
				}
				// same StrictUnicode as the Decoder: otherwise str and ByteString keys of a Dict merge on the
				// way back and which one survives depends on the (random) iteration order, not on concurrency
				if err := ogorek.NewEncoderWithConfig(&b, &ogorek.EncoderConfig{Protocol: proto, StrictUnicode: cfg.StrictUnicode}).Encode(shared); err == nil {
					d2, _ := ogorek.NewDecoderWithConfig(&b, cfg).Decode()
					out += "#" + dumpVal(d2)
				} else {
					out += "#err"
				}
				return out
			}
		}
	default:
		return "DRIVER-ERROR bad conc mode"
	}
	want := make([]string, n)
	concPhase = 0
	for i := range work {
		want[i] = work[i]()
	}
	concPhase = 1 // before the goroutines start (they wait for close(start))
	got := make([][]string, n)
	var wg sync.WaitGroup
	start := make(chan struct{})
	for i := range work {
		wg.Add(1)
		go func(i int) {
			defer wg.Done()
			<-start
			for r := 0; r < rounds; r++ {
				got[i] = append(got[i], work[i]())
			}
		}(i)
	}
	close(start)
	wg.Wait()
	for i := range work {
		for r, g := range got[i] {
			if g != want[i] {
				return fmt.Sprintf("MISMATCH goroutine=%d round=%d concurrent=%.200s sequential=%.200s", i, r, g, want[i])
			}
		}
	}
	return "ok"
}

// handleMore: commands beyond decoding.
func handleMore(f []string) (string, bool) {
	switch f[0] {
	case "dict":
		return runDict(f[1:]), true
	case "lookup":
		return runLookup(f[1:]), true
	case "conv":
		return runConv(f[1:]), true
	case "decstable":
		return runDecStable(f[1:]), true
	case "decchunk":
		return runDecChunk(f[1:]), true
	case "conc":
		return runConc(f[1:]), true
	case "enc":
		return runEnc(f[1:]), true
	case "fmtg":
		return "ok " + hx(fmt.Sprintf("%g", math.Float64frombits(hexu64(f[1])))), true
	case "isprint-table":
		return isPrintTable(), true
	}
	return "", false
}

func imin(a, b int) int {
	if a < b {
		return a
	}
	return b
}
