module ogverif

go 1.18

require github.com/kisielk/og-rek v0.0.0

require (
	github.com/aristanetworks/gomap v0.0.0-20230726210543-f4e41046dced // indirect
	golang.org/x/exp v0.0.0-20230725093048-515e97ebf090 // indirect
)

replace github.com/kisielk/og-rek => /repo
