package main

// Value syntax shared with modelrun (see README): parser into Go values, canonical dumper.

import (
	"encoding/hex"
	"fmt"
	"math"
	"math/big"
	"reflect"
	"sort"
	"strconv"
	"strings"

	ogorek "github.com/kisielk/og-rek"
)

// UserObj is what the scripted PersistentLoad hooks return.
type UserObj struct{ Tag int }

func unhex(s string) string {
	b, err := hex.DecodeString(s)
	if err != nil {
		panic("bad hex: " + s)
	}
	return string(b)
}

func hexu64(s string) uint64 {
	u, err := strconv.ParseUint(s, 16, 64)
	if err != nil {
		panic("bad hex64: " + s)
	}
	return u
}

type parser struct {
	toks []string
	pos  int
}

func (p *parser) next() string {
	if p.pos >= len(p.toks) {
		panic("value expected")
	}
	t := p.toks[p.pos]
	p.pos++
	return t
}

func (p *parser) peek() string {
	if p.pos >= len(p.toks) {
		return ""
	}
	return p.toks[p.pos]
}

func (p *parser) until(close string) []any {
	var l []any
	for p.peek() != close {
		l = append(l, p.value())
	}
	p.next()
	return l
}

func bigOf(s string) *big.Int {
	z, ok := new(big.Int).SetString(s, 10)
	if !ok {
		panic("bad int: " + s)
	}
	return z
}

// value parses the key/decoded-value fragment (no structs, pointers, typed containers).
func (p *parser) value() any {
	t := p.next()
	switch {
	case t == "N":
		return ogorek.None{}
	case t == "NIL":
		return nil // only as a Dict value: a Dict used as a set
	case t == "T":
		return true
	case t == "F":
		return false
	case strings.HasPrefix(t, "i:"):
		return bigOf(t[2:]).Int64()
	case strings.HasPrefix(t, "i8:"):
		return int8(bigOf(t[3:]).Int64())
	case strings.HasPrefix(t, "i16:"):
		return int16(bigOf(t[4:]).Int64())
	case strings.HasPrefix(t, "i32:"):
		return int32(bigOf(t[4:]).Int64())
	case strings.HasPrefix(t, "i0:"):
		return int(bigOf(t[3:]).Int64())
	case strings.HasPrefix(t, "u:"):
		return bigOf(t[2:]).Uint64()
	case strings.HasPrefix(t, "u8:"):
		return uint8(bigOf(t[3:]).Uint64())
	case strings.HasPrefix(t, "u16:"):
		return uint16(bigOf(t[4:]).Uint64())
	case strings.HasPrefix(t, "u32:"):
		return uint32(bigOf(t[4:]).Uint64())
	case strings.HasPrefix(t, "u0:"):
		return uint(bigOf(t[3:]).Uint64())
	case strings.HasPrefix(t, "L:"):
		return bigOf(t[2:])
	case strings.HasPrefix(t, "f:"):
		return math.Float64frombits(hexu64(t[2:]))
	case strings.HasPrefix(t, "f32:"):
		return math.Float32frombits(uint32(hexu64(t[4:])))
	case strings.HasPrefix(t, "x:"):
		ab := strings.Split(t[2:], ",")
		return complex(math.Float64frombits(hexu64(ab[0])), math.Float64frombits(hexu64(ab[1])))
	case strings.HasPrefix(t, "x32:"):
		ab := strings.Split(t[4:], ",")
		return complex(math.Float32frombits(uint32(hexu64(ab[0]))), math.Float32frombits(uint32(hexu64(ab[1]))))
	case strings.HasPrefix(t, "s:"):
		return unhex(t[2:])
	case strings.HasPrefix(t, "z:"):
		return ogorek.ByteString(unhex(t[2:]))
	case strings.HasPrefix(t, "b:"):
		return ogorek.Bytes(unhex(t[2:]))
	case strings.HasPrefix(t, "a:"):
		return []byte(unhex(t[2:]))
	case strings.HasPrefix(t, "U:"):
		n, _ := strconv.Atoi(t[2:])
		return UserObj{Tag: n}
	case strings.HasPrefix(t, "g:"):
		f := strings.Split(t, ":")
		return ogorek.Class{Module: unhex(f[1]), Name: unhex(f[2])}
	case t == "l[":
		l := p.until("]")
		if l == nil {
			l = []any{}
		}
		return l
	case t == "tnil":
		return ogorek.Tuple(nil) // a nil Tuple: the same Python object as Tuple{}
	case t == "t(":
		l := p.until(")")
		if l == nil {
			return ogorek.Tuple{}
		}
		return ogorek.Tuple(l)
	case t == "m{":
		l := p.until("}")
		m := make(map[any]any)
		for i := 0; i+1 < len(l); i += 2 {
			m[l[i]] = l[i+1]
		}
		return m
	case t == "d{":
		l := p.until("}")
		d := ogorek.NewDict()
		for i := 0; i+1 < len(l); i += 2 {
			d.Set(l[i], l[i+1])
		}
		return d
	case t == "C(":
		c := p.value().(ogorek.Class)
		a := p.value().(ogorek.Tuple)
		p.next()
		return ogorek.Call{Callable: c, Args: a}
	case t == "R(":
		pid := p.value()
		p.next()
		return ogorek.Ref{Pid: pid}
	}
	panic("bad token: " + t)
}

// ---- canonical dump ----------------------------------------------------------

type dumper struct {
	path []uintptr
	n    int
}

func hx(s string) string { return hex.EncodeToString([]byte(s)) }

func (d *dumper) onPath(id uintptr) (int, bool) {
	for i := len(d.path) - 1; i >= 0; i-- {
		if d.path[i] == id {
			return len(d.path) - 1 - i, true
		}
	}
	return 0, false
}

func (d *dumper) list(sb *strings.Builder, l []any) {
	for _, x := range l {
		sb.WriteByte(' ')
		d.dump(sb, x)
	}
}

func (d *dumper) dump(sb *strings.Builder, v any) {
	d.n++
	switch x := v.(type) {
	case nil:
		sb.WriteString("NIL")
	case ogorek.None:
		sb.WriteString("N")
	case bool:
		if x {
			sb.WriteString("T")
		} else {
			sb.WriteString("F")
		}
	case int64:
		sb.WriteString("i:" + strconv.FormatInt(x, 10))
	case int, int8, int16, int32:
		sb.WriteString("i:" + strconv.FormatInt(reflect.ValueOf(x).Int(), 10))
	case uint, uint8, uint16, uint32, uint64:
		sb.WriteString("u:" + strconv.FormatUint(reflect.ValueOf(x).Uint(), 10))
	case float32:
		fmt.Fprintf(sb, "f:%016x", math.Float64bits(float64(x)))
	case complex128:
		fmt.Fprintf(sb, "x:%016x,%016x", math.Float64bits(real(x)), math.Float64bits(imag(x)))
	case complex64:
		fmt.Fprintf(sb, "x:%016x,%016x", math.Float64bits(float64(real(x))), math.Float64bits(float64(imag(x))))
	case *big.Int:
		sb.WriteString("L:" + x.Text(16))
	case float64:
		fmt.Fprintf(sb, "f:%016x", math.Float64bits(x))
	case string:
		sb.WriteString("s:" + hx(x))
	case ogorek.ByteString:
		sb.WriteString("z:" + hx(string(x)))
	case ogorek.Bytes:
		sb.WriteString("b:" + hx(string(x)))
	case []byte:
		sb.WriteString("a:" + hx(string(x)))
	case []any:
		sb.WriteString("l[")
		d.list(sb, x)
		sb.WriteString(" ]")
	case ogorek.Tuple:
		sb.WriteString("t(")
		d.list(sb, []any(x))
		sb.WriteString(" )")
	case map[any]any:
		id := reflect.ValueOf(x).Pointer()
		if k, ok := d.onPath(id); ok {
			sb.WriteString("^" + strconv.Itoa(k))
			return
		}
		d.path = append(d.path, id)
		items := make([]string, 0, len(x))
		for k, val := range x {
			var b strings.Builder
			d.dump(&b, k)
			b.WriteByte(' ')
			d.dump(&b, val)
			items = append(items, b.String())
		}
		d.path = d.path[:len(d.path)-1]
		sort.Strings(items)
		sb.WriteString("m{")
		for _, it := range items {
			sb.WriteByte(' ')
			sb.WriteString(it)
		}
		sb.WriteString(" }")
	case ogorek.Dict:
		id := ogorek.VerifDictID(x)
		if k, ok := d.onPath(id); ok {
			sb.WriteString("^" + strconv.Itoa(k))
			return
		}
		d.path = append(d.path, id)
		items := make([]string, 0, x.Len())
		x.Iter()(func(k, val any) bool {
			var b strings.Builder
			d.dump(&b, k)
			b.WriteByte(' ')
			d.dump(&b, val)
			items = append(items, b.String())
			return true
		})
		d.path = d.path[:len(d.path)-1]
		sort.Strings(items)
		sb.WriteString("d{")
		for _, it := range items {
			sb.WriteByte(' ')
			sb.WriteString(it)
		}
		sb.WriteString(" }")
	case ogorek.Class:
		sb.WriteString("g:" + hx(x.Module) + ":" + hx(x.Name))
	case ogorek.Call:
		sb.WriteString("C( g:" + hx(x.Callable.Module) + ":" + hx(x.Callable.Name) + " t(")
		d.list(sb, []any(x.Args))
		sb.WriteString(" ) )")
	case ogorek.Ref:
		sb.WriteString("R( ")
		d.dump(sb, x.Pid)
		sb.WriteString(" )")
	case UserObj:
		sb.WriteString("U:" + strconv.Itoa(x.Tag))
	default:
		// anything outside the documented result types (includes the internal mark)
		fmt.Fprintf(sb, "UNDOCUMENTED<%T>", v)
	}
}

const dumpBudget = 100000

// visit mirrors dump's traversal and counts nodes down from a budget (model: visit_budget).
func (d *dumper) visit(v any) {
	if d.n == 0 {
		return
	}
	d.n--
	switch x := v.(type) {
	case []any:
		for _, e := range x {
			d.visit(e)
		}
	case ogorek.Tuple:
		for _, e := range x {
			d.visit(e)
		}
	case ogorek.Call:
		for _, e := range x.Args {
			d.visit(e)
		}
	case ogorek.Ref:
		d.visit(x.Pid)
	case map[any]any:
		id := reflect.ValueOf(x).Pointer()
		if _, ok := d.onPath(id); ok {
			return
		}
		d.path = append(d.path, id)
		for k, val := range x {
			d.visit(k)
			d.visit(val)
		}
		d.path = d.path[:len(d.path)-1]
	case ogorek.Dict:
		id := ogorek.VerifDictID(x)
		if _, ok := d.onPath(id); ok {
			return
		}
		d.path = append(d.path, id)
		x.Iter()(func(k, val any) bool {
			d.visit(k)
			d.visit(val)
			return true
		})
		d.path = d.path[:len(d.path)-1]
	}
}

func dumpVal(v any) string {
	c := &dumper{n: dumpBudget}
	c.visit(v)
	if c.n == 0 {
		return "TOOBIG"
	}
	var sb strings.Builder
	d := &dumper{}
	d.dump(&sb, v)
	return sb.String()
}
