package main

// Encoder-side value syntax: builds arbitrary Go values (typed containers, structs made with
// reflect.StructOf, a zoo of declared types with unexported / embedded / tagged fields,
// pointers, typed nil pointers, unsupported kinds) for Encode.

import (
	"fmt"
	"math"
	"math/big"
	"reflect"
	"sort"
	"strings"
	"unsafe"

	ogorek "github.com/kisielk/og-rek"
)

type NamedStr string
type NamedBytes []byte
type NamedByte byte

// ---- zoo of declared types -------------------------------------------------------------------
type ZooD struct{ V int }
type zooA struct {
	a string `pickle:"a"`
	B int    `pickle:"b"`
}
type zooB struct {
	X int
	y int
	Z string
}
type zooC struct {
	zooB
	W int
}
type zooE struct {
	ZooD
	U int
}
type zooF struct {
	a []any       `pickle:"a"`
	b *ZooD       `pickle:"b"`
	c map[any]any `pickle:"c"`
	d ZooD        `pickle:"d"`
	e any         `pickle:"e"`
	f ogorek.Tuple `pickle:"f"`
	g [2]byte     `pickle:"g"`
}
type zooG struct {
	A int `pickle:"k"`
	B int `pickle:"k"`
	C int
}
type zooH struct {
	a ogorek.Bytes      `pickle:"a"`
	b ogorek.ByteString `pickle:"b"`
	c *big.Int          `pickle:"c"`
	d ogorek.Ref        `pickle:"d"`
	e NamedStr          `pickle:"e"`
}

type encParser struct {
	parser
	refs map[uintptr]*ogorek.Ref // PersistentRef answers by pointer identity
}

func (p *encParser) getref(obj any) *ogorek.Ref {
	rv := reflect.ValueOf(obj)
	if rv.Kind() != reflect.Ptr {
		return nil
	}
	return p.refs[rv.Pointer()]
}

func unhexDash(s string) string {
	if s == "-" {
		return ""
	}
	return unhex(s)
}

func ptrTo(v reflect.Value) reflect.Value {
	pv := reflect.New(v.Type())
	pv.Elem().Set(v)
	return pv
}

var anyType = reflect.TypeOf((*any)(nil)).Elem()

// rvalue parses one encoder-side value and returns it as a reflect.Value (the zero Value
// stands for the nil interface).
func (p *encParser) rvalue() reflect.Value {
	t := p.next()
	simple := func(v any) reflect.Value { return reflect.ValueOf(v) }
	switch {
	case t == "NIL":
		return reflect.Value{}
	case t == "chan":
		return simple(make(chan int))
	case t == "func":
		return simple(func() {})
	case t == "uptr":
		return simple(uintptr(5))
	case t == "unsafeptr":
		x := 1
		return simple(unsafe.Pointer(&x))
	case strings.HasPrefix(t, "ns:"):
		return simple(NamedStr(unhex(t[3:])))
	case strings.HasPrefix(t, "y:"):
		return simple(ogorek.VerifUnicode(unhex(t[2:])))
	case strings.HasPrefix(t, "na:"):
		return simple(NamedBytes(unhex(t[3:])))
	case strings.HasPrefix(t, "nb:"):
		s := unhex(t[3:])
		l := make([]NamedByte, len(s))
		for i := range l {
			l[i] = NamedByte(s[i])
		}
		return simple(l)
	case strings.HasPrefix(t, "A:"):
		s := unhex(t[2:])
		at := reflect.ArrayOf(len(s), reflect.TypeOf(byte(0)))
		av := reflect.New(at).Elem()
		for i := 0; i < len(s); i++ {
			av.Index(i).SetUint(uint64(s[i]))
		}
		return av // by value: not addressable once passed through an interface
	case strings.HasPrefix(t, "Lv:"):
		return simple(*bigOf(t[3:]))
	case strings.HasPrefix(t, "nilp:"):
		switch t[5:] {
		case "struct":
			return simple((*ZooD)(nil))
		case "int":
			return simple((*int)(nil))
		case "none":
			return simple((*ogorek.None)(nil))
		case "big":
			return simple((*big.Int)(nil))
		case "call":
			return simple((*ogorek.Call)(nil))
		case "ptrptr":
			return simple((**ZooD)(nil))
		}
		panic("bad nilp")
	case t == "t(":
		var l ogorek.Tuple
		for p.peek() != ")" {
			l = append(l, p.iface())
		}
		p.next()
		if l == nil {
			l = ogorek.Tuple{}
		}
		return simple(l)
	case t == "l[":
		l := []any{}
		for p.peek() != "]" {
			l = append(l, p.iface())
		}
		p.next()
		return simple(l)
	case t == "ar[":
		var l []any
		for p.peek() != "]" {
			l = append(l, p.iface())
		}
		p.next()
		av := reflect.New(reflect.ArrayOf(len(l), anyType)).Elem()
		for i, x := range l {
			if x != nil {
				av.Index(i).Set(reflect.ValueOf(x))
			}
		}
		return av
	case t == "ts[":
		var l []reflect.Value
		for p.peek() != "]" {
			l = append(l, p.rvalue())
		}
		p.next()
		if len(l) == 0 {
			return simple([]int64{})
		}
		sv := reflect.MakeSlice(reflect.SliceOf(l[0].Type()), len(l), len(l))
		for i, x := range l {
			sv.Index(i).Set(x)
		}
		return sv
	case t == "m{":
		m := map[any]any{}
		for p.peek() != "}" {
			k := p.iface()
			v := p.iface()
			m[k] = v
		}
		p.next()
		return simple(m)
	case t == "tm{":
		var ks, vs []reflect.Value
		for p.peek() != "}" {
			ks = append(ks, p.rvalue())
			vs = append(vs, p.rvalue())
		}
		p.next()
		if len(ks) == 0 {
			return simple(map[string]int{})
		}
		mv := reflect.MakeMap(reflect.MapOf(ks[0].Type(), vs[0].Type()))
		for i := range ks {
			mv.SetMapIndex(ks[i], vs[i])
		}
		return mv
	case t == "d{":
		d := ogorek.NewDict()
		for p.peek() != "}" {
			k := p.iface()
			v := p.iface()
			d.Set(k, v)
		}
		p.next()
		return simple(d)
	case t == "C(":
		c := p.iface().(ogorek.Class)
		a := p.iface().(ogorek.Tuple)
		p.next()
		return simple(ogorek.Call{Callable: c, Args: a})
	case t == "R(":
		pid := p.iface()
		p.next()
		return simple(ogorek.Ref{Pid: pid})
	case t == "st{":
		var fields []reflect.StructField
		var vals []reflect.Value
		for p.peek() != "}" {
			if p.next() != "F" {
				panic("st{: F expected")
			}
			name := unhexDash(p.next())
			tag := unhexDash(p.next())
			v := p.rvalue()
			ft := anyType
			if v.IsValid() {
				ft = v.Type()
			}
			sf := reflect.StructField{Name: name, Type: ft}
			if tag != "" {
				sf.Tag = reflect.StructTag(fmt.Sprintf("pickle:%q", tag))
			}
			fields = append(fields, sf)
			vals = append(vals, v)
		}
		p.next()
		sv := reflect.New(reflect.StructOf(fields)).Elem()
		for i, v := range vals {
			if v.IsValid() {
				sv.Field(i).Set(v)
			}
		}
		return sv
	case strings.HasPrefix(t, "zoo:"):
		return p.zoo(t[4:])
	case t == "p&(":
		v := p.rvalue()
		p.next()
		return ptrTo(v)
	case t == "P&(":
		pid := p.iface()
		v := p.rvalue()
		p.next()
		pv := ptrTo(v)
		p.refs[pv.Pointer()] = &ogorek.Ref{Pid: pid}
		return pv
	}
	// everything shared with the decoded-value syntax
	p.pos--
	v := p.value()
	if _, isNone := v.(ogorek.None); !isNone && v == nil {
		return reflect.Value{}
	}
	return reflect.ValueOf(v)
}

// iface parses a value to be stored in an interface-typed slot.
func (p *encParser) iface() any {
	v := p.rvalue()
	if !v.IsValid() {
		return nil
	}
	return v.Interface()
}

func (p *encParser) intArg() int {
	v := p.iface()
	switch x := v.(type) {
	case int64:
		return int(x)
	case int:
		return x
	}
	panic("int argument expected")
}

func (p *encParser) strArg() string {
	v := p.iface()
	if s, ok := v.(string); ok {
		return s
	}
	panic("string argument expected")
}

func (p *encParser) zoo(name string) reflect.Value {
	if p.next() != "(" {
		panic("zoo: ( expected")
	}
	var out any
	switch name {
	case "A":
		out = zooA{a: p.strArg(), B: p.intArg()}
	case "B":
		out = zooB{X: p.intArg(), y: p.intArg(), Z: p.strArg()}
	case "C":
		out = zooC{zooB: zooB{X: p.intArg(), y: p.intArg(), Z: p.strArg()}, W: p.intArg()}
	case "E":
		out = zooE{ZooD: ZooD{V: p.intArg()}, U: p.intArg()}
	case "F":
		z := zooF{}
		if l, ok := p.iface().([]any); ok {
			z.a = l
		}
		z.b = &ZooD{V: p.intArg()}
		if m, ok := p.iface().(map[any]any); ok {
			z.c = m
		}
		z.d = ZooD{V: p.intArg()}
		z.e = p.iface()
		if t, ok := p.iface().(ogorek.Tuple); ok {
			z.f = t
		}
		s := p.strArg()
		copy(z.g[:], s)
		out = z
	case "G":
		out = zooG{A: p.intArg(), B: p.intArg(), C: p.intArg()}
	case "H":
		z := zooH{}
		z.a = p.iface().(ogorek.Bytes)
		z.b = p.iface().(ogorek.ByteString)
		z.c = p.iface().(*big.Int)
		z.d = p.iface().(ogorek.Ref)
		z.e = NamedStr(p.strArg())
		out = z
	case "L1":
		out = zooLocal1(p.intArg(), p.strArg())
	case "L2":
		out = zooLocal2(p.intArg(), p.intArg(), p.intArg(), p.strArg(), p.intArg())
	default:
		panic("unknown zoo type " + name)
	}
	if p.next() != ")" {
		panic("zoo: ) expected")
	}
	return reflect.ValueOf(out)
}

var _ = math.Pi

// two DIFFERENT struct types with one name (main.local): anything remembered per type must not be
// keyed by the type's name or printed form
func zooLocal1(x int, y string) any {
	type local struct {
		x int    `pickle:"a"`
		Y string `pickle:"b"`
	}
	return local{x: x, Y: y}
}
func zooLocal2(p, q, r int, y string, x int) any {
	type local struct {
		P, Q, R int
		Y       string `pickle:"b"`
		x       int    `pickle:"a"`
	}
	return local{P: p, Q: q, R: r, Y: y, x: x}
}

// deepString renders a value completely and deterministically (map entries sorted by their rendered
// text, floats by bit pattern, pointers followed with a cycle guard): used to detect that Encode
// modified its argument.  fmt's %#v is not usable for that: it orders several NaN map keys
// arbitrarily.
func deepString(v any) string {
	var sb strings.Builder
	deepWrite(&sb, reflect.ValueOf(v), map[uintptr]bool{}, 0)
	return sb.String()
}

func deepWrite(sb *strings.Builder, v reflect.Value, seen map[uintptr]bool, depth int) {
	if !v.IsValid() {
		sb.WriteString("<invalid>")
		return
	}
	if depth > 200 {
		sb.WriteString("<deep>")
		return
	}
	sb.WriteString(v.Type().String())
	sb.WriteByte(':')
	// a Dict is rendered through its API: iterating it sets bookkeeping flags inside gomap
	if v.Type() == reflect.TypeOf(ogorek.Dict{}) && v.CanInterface() {
		d := v.Interface().(ogorek.Dict)
		items := []string{}
		d.Iter()(func(k, val any) bool {
			var b strings.Builder
			deepWrite(&b, reflect.ValueOf(k), seen, depth+1)
			b.WriteString("=>")
			deepWrite(&b, reflect.ValueOf(val), seen, depth+1)
			items = append(items, b.String())
			return true
		})
		sort.Strings(items)
		sb.WriteString("dict{" + strings.Join(items, "; ") + "}")
		return
	}
	if v.Type() == reflect.TypeOf(big.Int{}) && v.CanAddr() && v.Addr().CanInterface() {
		sb.WriteString(v.Addr().Interface().(*big.Int).String())
		return
	}
	switch v.Kind() {
	case reflect.Float32, reflect.Float64:
		fmt.Fprintf(sb, "%016x", math.Float64bits(v.Float()))
	case reflect.Complex64, reflect.Complex128:
		c := v.Complex()
		fmt.Fprintf(sb, "%016x,%016x", math.Float64bits(real(c)), math.Float64bits(imag(c)))
	case reflect.Bool, reflect.Int, reflect.Int8, reflect.Int16, reflect.Int32, reflect.Int64,
		reflect.Uint, reflect.Uint8, reflect.Uint16, reflect.Uint32, reflect.Uint64, reflect.Uintptr, reflect.String:
		fmt.Fprintf(sb, "%#v", v)
	case reflect.Slice, reflect.Array:
		if v.Kind() == reflect.Slice && v.IsNil() {
			sb.WriteString("nil")
			return
		}
		sb.WriteByte('[')
		for i := 0; i < v.Len(); i++ {
			deepWrite(sb, v.Index(i), seen, depth+1)
			sb.WriteByte(' ')
		}
		sb.WriteByte(']')
	case reflect.Map:
		if v.IsNil() {
			sb.WriteString("nil")
			return
		}
		p := v.Pointer()
		if seen[p] {
			sb.WriteString("<cycle>")
			return
		}
		seen[p] = true
		items := make([]string, 0, v.Len())
		it := v.MapRange()
		for it.Next() {
			var b strings.Builder
			deepWrite(&b, it.Key(), seen, depth+1)
			b.WriteString("=>")
			deepWrite(&b, it.Value(), seen, depth+1)
			items = append(items, b.String())
		}
		delete(seen, p)
		sort.Strings(items)
		sb.WriteByte('{')
		sb.WriteString(strings.Join(items, "; "))
		sb.WriteByte('}')
	case reflect.Ptr:
		if v.IsNil() {
			sb.WriteString("nil")
			return
		}
		p := v.Pointer()
		if seen[p] {
			sb.WriteString("<cycle>")
			return
		}
		seen[p] = true
		sb.WriteByte('&')
		deepWrite(sb, v.Elem(), seen, depth+1)
		delete(seen, p)
	case reflect.Interface:
		if v.IsNil() {
			sb.WriteString("nil")
			return
		}
		deepWrite(sb, v.Elem(), seen, depth+1)
	case reflect.Struct:
		sb.WriteByte('{')
		for i := 0; i < v.NumField(); i++ {
			sb.WriteString(v.Type().Field(i).Name)
			sb.WriteByte('=')
			deepWrite(sb, v.Field(i), seen, depth+1)
			sb.WriteByte(' ')
		}
		sb.WriteByte('}')
	default:
		// chan, func, unsafe pointer: identity
		fmt.Fprintf(sb, "%v", v.Kind())
	}
}
